use futures_buffered::*;
use futures_core::Stream;
use std::cell::Cell;
use std::future::Future;
use std::pin::Pin;
use std::rc::Rc;
use std::sync::Arc;
use std::task::{Context, Poll, Wake, Waker};

struct Noop;
impl Wake for Noop { fn wake(self: Arc<Self>) {} }

// future: ready iff flag set
struct Fl { ready: Rc<Cell<bool>>, out: Option<Tok> }
struct Tok(Rc<Cell<i32>>, i32);
impl Drop for Tok { fn drop(&mut self) { self.0.set(self.0.get() + 1); } }
impl Future for Fl { type Output = Tok; fn poll(mut self: Pin<&mut Self>, _cx: &mut Context<'_>) -> Poll<Tok> { if self.ready.get() { Poll::Ready(self.out.take().unwrap()) } else { Poll::Pending } } }
struct FlR { ready: Rc<Cell<bool>>, out: Option<Result<Tok, i32>> }
impl Future for FlR { type Output = Result<Tok,i32>; fn poll(mut self: Pin<&mut Self>, _cx: &mut Context<'_>) -> Poll<Self::Output> { if self.ready.get() { Poll::Ready(self.out.take().unwrap()) } else { Poll::Pending } } }

struct Up<I: Iterator>(I, usize);
impl<I: Iterator + Unpin> Stream for Up<I> { type Item = I::Item; fn poll_next(mut self: Pin<&mut Self>, _cx: &mut Context<'_>) -> Poll<Option<I::Item>> { self.1 += 1; Poll::Ready(self.0.next()) } }

struct Rep(usize, bool); // infinite source / or always pending
impl Stream for Rep { type Item = usize; fn poll_next(self: Pin<&mut Self>, _cx: &mut Context<'_>) -> Poll<Option<usize>> { if self.1 { Poll::Ready(Some(self.0)) } else { Poll::Pending } } }

fn main() {
    let w = Waker::from(Arc::new(Noop));
    let mut cx = Context::from_waker(&w);
    let drops = Rc::new(Cell::new(0));

    // C16: buffered_ordered(2), head never completes, rest ready
    {
        let never = Rc::new(Cell::new(false)); let yes = Rc::new(Cell::new(true));
        let d = drops.clone(); let (n2, y2) = (never.clone(), yes.clone());
        let mut pulled = 0usize;
        let it = (0..).map(move |i| { Fl { ready: if i == 0 { n2.clone() } else { y2.clone() }, out: Some(Tok(d.clone(), i)) } });
        let up = Up(it, 0);
        let mut s = Box::pin(up.buffered_ordered(2));
        for k in 0..5 { let r = s.as_mut().poll_next(&mut cx); pulled = k; let _ = r.is_pending(); println!("C16 poll {k}: pending={} size_hint={:?}", r.is_pending(), s.size_hint()); }
        let _ = pulled;
    }
    // C17: try_buffered_unordered size_hint after upstream end with in-flight
    {
        let never = Rc::new(Cell::new(false));
        let d = drops.clone();
        let v: Vec<Result<FlR, i32>> = vec![Ok(FlR { ready: never.clone(), out: Some(Ok(Tok(d.clone(), 7))) })];
        let mut s = Box::pin(Up(v.into_iter(), 0).try_buffered_unordered(2));
        let r = s.as_mut().poll_next(&mut cx);
        println!("C17 after poll pending={} size_hint={:?} (1 item still to come)", r.is_pending(), s.size_hint());
        never.set(true);
        let r = s.as_mut().poll_next(&mut cx);
        println!("C17 then yields item: {}", matches!(r, Poll::Ready(Some(Ok(_)))));
    }
    // C06: join_all cancelled after one output
    {
        let d = Rc::new(Cell::new(0));
        let yes = Rc::new(Cell::new(true)); let never = Rc::new(Cell::new(false));
        let mut j = Box::pin(join_all(vec![Fl { ready: yes.clone(), out: Some(Tok(d.clone(), 0)) }, Fl { ready: never.clone(), out: Some(Tok(d.clone(), 1)) }]));
        let r = j.as_mut().poll(&mut cx); println!("C06 join_all pending={}", r.is_pending());
        drop(j);
        println!("C06 tokens dropped after cancel: {} of 2", d.get());
    }
    // C13: MergeUnbounded starvation across groups
    {
        let mut m = MergeUnbounded::new();
        m.push(Rep(0, true));
        for i in 1..32 { m.push(Rep(i, false)); }
        m.push(Rep(32, true)); // lands in group 1
        let mut seen32 = false;
        for _ in 0..10_000 { if let Poll::Ready(Some(x)) = Pin::new(&mut m).poll_next(&mut cx) { if x == 32 { seen32 = true; break; } } }
        println!("C13 source 32 ever yielded in 10000 polls: {seen32}");
    }
    // C10: for_each_concurrent(0)
    {
        let cnt = Rc::new(Cell::new(0)); let c2 = cnt.clone();
        let mut f = Box::pin(Up(0..3, 0).for_each_concurrent(0, move |_x| { c2.set(c2.get() + 1); std::future::ready(()) }));
        let r = f.as_mut().poll(&mut cx);
        println!("C10 for_each_concurrent(0): pending={} closure calls={}", r.is_pending(), cnt.get());
    }
}
