//! fb-replay: bounded search for a concrete failing history on the REAL crate (path dependency on /repo).
//!
//! It is not the deciding step of any check: the checks are decided by the verifier.  It is used
//!   * to attach a concrete, re-runnable history to a failed obligation (VIOLATION ... replay=...),
//!   * as the bounded stand-in when the verifier is UNDECIDED on a changed tree,
//!   * to confirm seeded changes.
//! usage: fb-replay <C01..C18> [--seed N] [--iters N] [--replay '<json history>']
//! exit 0 = nothing found (prints NOFAIL), exit 1 = violation found (prints one JSON line).

use futures_buffered::*;
use futures_core::Stream;
use std::cell::{Cell, RefCell};
use std::collections::VecDeque;
use std::future::Future;
use std::pin::Pin;
use std::rc::Rc;
use std::sync::atomic::{AtomicUsize, Ordering};
use std::sync::Arc;
use std::task::{Context, Poll, Wake, Waker};

// ------------------------------------------------------------------------------------------------ rng
struct Rng(u64);
impl Rng {
    fn next(&mut self) -> u64 {
        self.0 ^= self.0 << 13;
        self.0 ^= self.0 >> 7;
        self.0 ^= self.0 << 17;
        self.0
    }
    fn below(&mut self, n: usize) -> usize {
        (self.next() % n.max(1) as u64) as usize
    }
}

// ------------------------------------------------------------------------------------------------ counting allocator (C18)
struct CountAlloc;
static ALLOCS: AtomicUsize = AtomicUsize::new(0);
/// live blocks (allocated, not yet released), and the first layout mismatch / release of a dead block seen (C03, C06)
static LIVE_BLOCKS: std::sync::atomic::AtomicIsize = std::sync::atomic::AtomicIsize::new(0);
static LAYOUT_MISMATCH: AtomicUsize = AtomicUsize::new(0);
/// while set, released blocks of alignment >= 64 (the shared waker allocations) are marked dead but not handed back to the
/// system: a premature release followed by further use or by a second release is then observed instead of corrupting the heap
/// live blocks of alignment >= 64 (the shared waker allocations are the only ones in this program)
static LIVE_BIG: std::sync::atomic::AtomicIsize = std::sync::atomic::AtomicIsize::new(0);
static QUARANTINE: std::sync::atomic::AtomicBool = std::sync::atomic::AtomicBool::new(false);
static MISMATCH_INFO: [AtomicUsize; 4] = [AtomicUsize::new(0), AtomicUsize::new(0), AtomicUsize::new(0), AtomicUsize::new(0)];
const HDR_MAGIC: usize = 0x5EED_A110_C0DE_0001;
const HDR_DEAD: usize = 0xDEAD_A110_C0DE_0002;
/// Every block carries a header in front of it (magic, size, align): dealloc / realloc are checked against the layout
/// the block was allocated with - Rust requires them to be the same - and against double release.
fn hdr_off(align: usize) -> usize { if align > 32 { align } else { 32 } }
unsafe impl std::alloc::GlobalAlloc for CountAlloc {
    unsafe fn alloc(&self, l: std::alloc::Layout) -> *mut u8 {
        ALLOCS.fetch_add(1, Ordering::Relaxed);
        let off = hdr_off(l.align());
        let full = match std::alloc::Layout::from_size_align(l.size() + off, l.align().max(8)) { Ok(f) => f, Err(_) => return std::ptr::null_mut() };
        let base = std::alloc::System.alloc(full);
        if base.is_null() { return base; }
        let p = base.add(off);
        let h = p.sub(24) as *mut usize;
        h.write(HDR_MAGIC); h.add(1).write(l.size()); h.add(2).write(l.align());
        LIVE_BLOCKS.fetch_add(1, Ordering::Relaxed);
        if l.align() >= 64 { LIVE_BIG.fetch_add(1, Ordering::Relaxed); }
        p
    }
    unsafe fn dealloc(&self, p: *mut u8, l: std::alloc::Layout) {
        let h = p.sub(24) as *mut usize;
        let (magic, size, align) = (h.read(), h.add(1).read(), h.add(2).read());
        if magic != HDR_MAGIC || size != l.size() || align != l.align() {
            if LAYOUT_MISMATCH.fetch_add(1, Ordering::Relaxed) == 0 {
                MISMATCH_INFO[0].store(if magic == HDR_DEAD { 1 } else if magic != HDR_MAGIC { 2 } else { 0 }, Ordering::Relaxed);
                MISMATCH_INFO[1].store(size, Ordering::Relaxed); MISMATCH_INFO[2].store(l.size(), Ordering::Relaxed); MISMATCH_INFO[3].store(l.align() * 1_000_000 + align, Ordering::Relaxed);
            }
            if magic != HDR_MAGIC { return; } // unknown / already released block: do not hand it to the system allocator again
        }
        h.write(HDR_DEAD);
        LIVE_BLOCKS.fetch_sub(1, Ordering::Relaxed);
        if align >= 64 { LIVE_BIG.fetch_sub(1, Ordering::Relaxed); }
        if align >= 64 && QUARANTINE.load(Ordering::Relaxed) { return; }
        let off = hdr_off(align);
        std::alloc::System.dealloc(p.sub(off), std::alloc::Layout::from_size_align_unchecked(size + off, align.max(8)))
    }
    unsafe fn realloc(&self, p: *mut u8, l: std::alloc::Layout, n: usize) -> *mut u8 {
        let np = self.alloc(std::alloc::Layout::from_size_align_unchecked(n, l.align()));
        if !np.is_null() {
            std::ptr::copy_nonoverlapping(p, np, l.size().min(n));
            self.dealloc(p, l);
        }
        np
    }
}
fn mismatch_text() -> String {
    let k = MISMATCH_INFO[0].load(Ordering::Relaxed);
    let (a, b, c) = (MISMATCH_INFO[1].load(Ordering::Relaxed), MISMATCH_INFO[2].load(Ordering::Relaxed), MISMATCH_INFO[3].load(Ordering::Relaxed));
    match k {
        1 => "a block was released twice".to_string(),
        2 => "a pointer that is not the start of a live block was released".to_string(),
        _ => format!("dealloc was handed a layout of {b} bytes (align {}) for a block allocated with {a} bytes (align {})", c / 1_000_000, c % 1_000_000),
    }
}
#[global_allocator]
static A: CountAlloc = CountAlloc;

// ------------------------------------------------------------------------------------------------ task waker
struct CountWaker(AtomicUsize);
impl Wake for CountWaker {
    fn wake(self: Arc<Self>) {
        self.0.fetch_add(1, Ordering::SeqCst);
    }
    fn wake_by_ref(self: &Arc<Self>) {
        self.0.fetch_add(1, Ordering::SeqCst);
    }
}

// ------------------------------------------------------------------------------------------------ scripted children
#[derive(Default)]
struct ChildSt {
    ready: Cell<bool>,
    polls: Cell<usize>,
    done: Cell<bool>,
    polled_after_done: Cell<bool>,
    dropped: Cell<usize>,
    out_dropped: Cell<usize>,
    waker: RefCell<Option<Waker>>,
    self_wake: Cell<bool>,
    addr: Cell<usize>,
    moved: Cell<bool>,
    woken_since_poll: Cell<bool>,
    err: Cell<bool>,
    wake_on_ready: Cell<bool>,
    up_err: Cell<bool>,
    /// global sequence number of the poll in which this child answered Ready (0 = not yet)
    done_seq: Cell<usize>,
    /// the child panics when it is polled (C06: unwinding through a combinator must not lose or double-drop anything)
    panic_on_poll: Cell<bool>,
    /// the destructor of the child's output panics (once)
    panic_on_out_drop: Cell<bool>,
}
type St = Rc<ChildSt>;

struct Out {
    id: usize,
    st: St,
}
impl Drop for Out {
    fn drop(&mut self) {
        self.st.out_dropped.set(self.st.out_dropped.get() + 1);
        if self.st.panic_on_out_drop.get() && !std::thread::panicking() {
            self.st.panic_on_out_drop.set(false);
            panic!("scripted panic in the destructor of an output");
        }
    }
}
struct Fut {
    id: usize,
    st: St,
    _pin: std::marker::PhantomPinned,
}
impl Fut {
    fn new(id: usize, st: St) -> Fut {
        Fut { id, st, _pin: std::marker::PhantomPinned }
    }
}
impl Drop for Fut {
    fn drop(&mut self) {
        self.st.dropped.set(self.st.dropped.get() + 1);
        let a = self as *const _ as usize;
        if self.st.addr.get() != 0 && self.st.addr.get() != a {
            self.st.moved.set(true);
        }
    }
}
impl Future for Fut {
    type Output = Out;
    fn poll(self: Pin<&mut Self>, cx: &mut Context<'_>) -> Poll<Out> {
        let a = &*self as *const _ as usize;
        let st = &self.st;
        if st.addr.get() == 0 {
            st.addr.set(a);
        } else if st.addr.get() != a {
            st.moved.set(true);
        }
        st.polls.set(st.polls.get() + 1);
        st.woken_since_poll.set(false);
        if st.done.get() {
            st.polled_after_done.set(true);
        }
        if st.panic_on_poll.get() {
            panic!("scripted child panic");
        }
        if st.ready.get() {
            if st.wake_on_ready.get() {
                // a child may fire its own waker during the very poll in which it completes
                cx.waker().wake_by_ref();
            }
            st.done.set(true);
            if st.done_seq.get() == 0 { st.done_seq.set(DONE_SEQ.fetch_add(1, Ordering::Relaxed) + 1); }
            Poll::Ready(Out { id: self.id, st: st.clone() })
        } else {
            *st.waker.borrow_mut() = Some(cx.waker().clone());
            if st.self_wake.get() {
                cx.waker().wake_by_ref();
                st.woken_since_poll.set(true);
            }
            Poll::Pending
        }
    }
}
/// Result-returning variant for try_join_all / try_buffered
struct TFut(Fut);
impl Future for TFut {
    type Output = Result<Out, usize>;
    fn poll(self: Pin<&mut Self>, cx: &mut Context<'_>) -> Poll<Self::Output> {
        let err = self.0.st.err.get();
        let id = self.0.id;
        let inner = unsafe { self.map_unchecked_mut(|s| &mut s.0) };
        match inner.poll(cx) {
            Poll::Ready(o) => {
                if err {
                    Poll::Ready(Err(id))
                } else {
                    Poll::Ready(Ok(o))
                }
            }
            Poll::Pending => Poll::Pending,
        }
    }
}

fn wake_child(st: &St) {
    if let Some(w) = st.waker.borrow().as_ref() {
        w.wake_by_ref();
        st.woken_since_poll.set(true);
    }
}

// ------------------------------------------------------------------------------------------------ scripted upstream
#[derive(Clone, Copy, Debug, PartialEq)]
enum Up {
    Item,
    Pending,
    End,
    ErrItem,
}
struct UpSt {
    script: RefCell<VecDeque<Up>>,
    polls: Cell<usize>,
    polled_after_end: Cell<bool>,
    ended: Cell<bool>,
    produced: Cell<usize>,
    last_pending: Cell<bool>,
    children: RefCell<Vec<St>>,
    honest_remaining: Cell<usize>,
    err_at: Cell<usize>,
    /// the upstream's size_hint is honest but not always exact: (remaining - slack_lo, remaining + slack_hi or None)
    slack_lo: Cell<usize>,
    slack_hi: Cell<usize>,
}
struct Upstream<T> {
    st: Rc<UpSt>,
    mk: Box<dyn FnMut(usize, St) -> T>,
}
impl<T> Unpin for Upstream<T> {}
impl<T> Stream for Upstream<T> {
    type Item = T;
    fn poll_next(mut self: Pin<&mut Self>, _cx: &mut Context<'_>) -> Poll<Option<T>> {
        let st = self.st.clone();
        st.polls.set(st.polls.get() + 1);
        if st.ended.get() {
            st.polled_after_end.set(true);
            return Poll::Ready(None);
        }
        let next = st.script.borrow_mut().pop_front().unwrap_or(Up::End);
        st.last_pending.set(next == Up::Pending);
        match next {
            Up::Item => {
                let id = st.produced.get();
                st.produced.set(id + 1);
                st.honest_remaining.set(st.honest_remaining.get().saturating_sub(1));
                let c: St = Rc::new(ChildSt::default());
                st.children.borrow_mut().push(c.clone());
                Poll::Ready(Some((self.mk)(id, c)))
            }
            Up::ErrItem => {
                // an upstream ERROR item of a try-adapter: no future is created; a placeholder keeps ids == indices
                let id = st.produced.get();
                st.produced.set(id + 1);
                st.honest_remaining.set(st.honest_remaining.get().saturating_sub(1));
                let c: St = Rc::new(ChildSt::default());
                c.up_err.set(true);
                c.dropped.set(1);
                c.done.set(true);
                st.children.borrow_mut().push(c.clone());
                Poll::Ready(Some((self.mk)(id, c)))
            }
            Up::Pending => Poll::Pending,
            Up::End => {
                st.ended.set(true);
                Poll::Ready(None)
            }
        }
    }
    fn size_hint(&self) -> (usize, Option<usize>) {
        let r = self.st.honest_remaining.get();
        let hi = self.st.slack_hi.get();
        (r.saturating_sub(self.st.slack_lo.get()), if hi == usize::MAX { None } else if hi == usize::MAX - 1 { Some(usize::MAX) } else { Some(r + hi) })
    }
}
fn upstream<T>(script: &[Up], mk: Box<dyn FnMut(usize, St) -> T>) -> (Upstream<T>, Rc<UpSt>) {
    let items = script.iter().take_while(|u| **u != Up::End).filter(|u| **u == Up::Item || **u == Up::ErrItem).count();
    let st = Rc::new(UpSt {
        script: RefCell::new(script.iter().copied().collect()),
        polls: Cell::new(0),
        polled_after_end: Cell::new(false),
        ended: Cell::new(false),
        produced: Cell::new(0),
        last_pending: Cell::new(false),
        children: RefCell::new(vec![]),
        honest_remaining: Cell::new(items),
        err_at: Cell::new(usize::MAX),
        slack_lo: Cell::new(0),
        slack_hi: Cell::new(0),
    });
    (Upstream { st: st.clone(), mk }, st)
}

// ------------------------------------------------------------------------------------------------ failure reporting
struct Fail {
    prop: &'static str,
    scenario: String,
    history: Vec<String>,
    what: String,
}
fn report(f: &Fail) -> ! {
    let h: Vec<String> = f.history.iter().map(|s| format!("\"{}\"", s.replace('"', "'"))).collect();
    println!(
        "{{\"property\":\"{}\",\"scenario\":\"{}\",\"history\":[{}],\"observed\":\"{}\"}}",
        f.prop,
        f.scenario,
        h.join(","),
        f.what.replace('"', "'")
    );
    std::process::exit(1)
}


/// an iterator whose size_hint is honest but loose: lower bound 0, upper bound over-estimating by `extra`
struct Loose<I>(I, usize);
impl<I: Iterator> Iterator for Loose<I> {
    type Item = I::Item;
    fn next(&mut self) -> Option<I::Item> { self.0.next() }
    fn size_hint(&self) -> (usize, Option<usize>) { let (_, hi) = self.0.size_hint(); (0, hi.map(|h| h + self.1)) }
}
/// an iterator with an honest but vague size_hint: lower bound below the real length, no upper bound
struct Vague<I>(I, usize);
impl<I: Iterator> Iterator for Vague<I> {
    type Item = I::Item;
    fn next(&mut self) -> Option<I::Item> { self.0.next() }
    fn size_hint(&self) -> (usize, Option<usize>) { (self.0.size_hint().0.saturating_sub(self.1), None) }
}
/// an iterator whose size_hint is WRONG (a stale, over-reporting lower bound): allowed to cost performance, never memory safety
struct Lying<I>(I, usize);
impl<I: Iterator> Iterator for Lying<I> {
    type Item = I::Item;
    fn next(&mut self) -> Option<I::Item> { self.0.next() }
    fn size_hint(&self) -> (usize, Option<usize>) { let (lo, hi) = self.0.size_hint(); (lo + self.1, hi.map(|h| h + self.1)) }
}
static DONE_SEQ: AtomicUsize = AtomicUsize::new(0);

// ------------------------------------------------------------------------------------------------ per-history guard
/// Thrown by `fail` when an oracle of ANOTHER property fires: the run is corrupted from here on (outputs duplicated,
/// counters off, ...), whatever follows says nothing about the property under search, so the history is abandoned.
struct AbortHistory;
/// Oracles of these properties compare identities / counts of yielded values with the model: once one of them has fired the
/// model and the real collection have diverged and later observations of the same history mean nothing.  Oracles of the other
/// properties (justification of Pending, limits, hints, addresses, poll counts) do not disturb the run.
const CORRUPTING: [&str; 6] = ["C02", "C05", "C06", "C07", "C10", "C11"];
thread_local! { static LAST_PANIC: RefCell<String> = RefCell::new(String::new()); }
fn install_panic_hook() {
    std::panic::set_hook(Box::new(|info| {
        let msg = format!("{info}");
        LAST_PANIC.with(|l| *l.borrow_mut() = msg);
    }));
}
/// Runs one history.  A panic of the real crate on a legal call sequence is a failure in its own right, reported for the
/// properties `crash_props` (the ones whose subject is the operation that crashed) unless an oracle fired first.
fn guarded<F: FnOnce()>(prop: &'static str, crash_props: &[&str], runner: &str, it: usize, f: F) {
    LAST_PANIC.with(|l| l.borrow_mut().clear());
    let r = std::panic::catch_unwind(std::panic::AssertUnwindSafe(f));
    if let Err(payload) = r {
        if payload.is::<AbortHistory>() || payload.is::<DryFail>() {
            return;
        }
        let msg = LAST_PANIC.with(|l| l.borrow().clone());
        // a panic raised inside the waker list or its intrusive queue (debug assertions of cordyceps, index checks) on a legal
        // call sequence is a failure of the shared waker state (C03) wherever it was triggered from
        if crash_props.contains(&prop) || (prop == "C03" && (msg.contains("waker_list") || msg.contains("cordyceps"))) {
            report(&Fail { prop, scenario: format!("{runner}: random history #{it} (re-run the same command to reproduce)"), history: vec![], what: format!("the real crate panicked on a legal call sequence: {}", msg.replace('\n', " ")) });
        }
    }
}

// ------------------------------------------------------------------------------------------------ collections (C02 C04 C05 C08 C12 C13 C14 C15 C01)
enum Coll {
    Fub(FuturesUnorderedBounded<Fut>),
    Fu(FuturesUnordered<Fut>),
    Fob(FuturesOrderedBounded<Fut>),
    Fo(FuturesOrdered<Fut>),
}
impl Coll {
    fn name(&self) -> &'static str {
        match self {
            Coll::Fub(_) => "FuturesUnorderedBounded",
            Coll::Fu(_) => "FuturesUnordered",
            Coll::Fob(_) => "FuturesOrderedBounded",
            Coll::Fo(_) => "FuturesOrdered",
        }
    }
    fn ordered(&self) -> bool {
        matches!(self, Coll::Fob(_) | Coll::Fo(_))
    }
    fn len(&self) -> usize {
        match self {
            Coll::Fub(c) => c.len(),
            Coll::Fu(c) => c.len(),
            Coll::Fob(c) => c.len(),
            Coll::Fo(c) => c.len(),
        }
    }
    fn is_empty(&self) -> bool {
        match self {
            Coll::Fub(c) => c.is_empty(),
            Coll::Fu(c) => c.is_empty(),
            Coll::Fob(c) => c.is_empty(),
            Coll::Fo(c) => c.is_empty(),
        }
    }
    fn size_hint(&self) -> (usize, Option<usize>) {
        match self {
            Coll::Fub(c) => c.size_hint(),
            Coll::Fu(c) => c.size_hint(),
            Coll::Fob(c) => c.size_hint(),
            Coll::Fo(c) => c.size_hint(),
        }
    }
    /// Ok(()) accepted, Err(f) refused
    fn push_back(&mut self, f: Fut) -> Result<(), Fut> {
        match self {
            Coll::Fub(c) => c.try_push(f),
            Coll::Fu(c) => {
                c.push(f);
                Ok(())
            }
            Coll::Fob(c) => c.try_push_back(f),
            Coll::Fo(c) => {
                // every third future goes in through the Extend impl (a function without a contract)
                if f.id % 3 == 2 { c.extend(std::iter::once(f)); } else { c.push_back(f); }
                Ok(())
            }
        }
    }
    fn push_front(&mut self, f: Fut) -> Result<(), Fut> {
        match self {
            Coll::Fob(c) => c.try_push_front(f),
            Coll::Fo(c) => {
                c.push_front(f);
                Ok(())
            }
            _ => self.push_back(f),
        }
    }
    fn poll(&mut self, cx: &mut Context<'_>) -> Poll<Option<Out>> {
        match self {
            Coll::Fub(c) => Pin::new(c).poll_next(cx),
            Coll::Fu(c) => Pin::new(c).poll_next(cx),
            Coll::Fob(c) => Pin::new(c).poll_next(cx),
            Coll::Fo(c) => Pin::new(c).poll_next(cx),
        }
    }
}

fn run_collections(prop: &'static str, seed: u64, iters: usize) {
    let mut rng = Rng(seed.wrapping_mul(0x9E3779B97F4A7C15) | 1);
    for it in 0..iters {
        // C15 ("a refusal leaves the collection undisturbed") is judged differentially: the history is first run WITHOUT
        // attempting the pushes that would be refused; if an output is lost / misordered there as well, the refusal is not
        // the cause and the history says nothing about C15.
        let mut refusal_independent = false;
        if prop == "C15" {
            let mut r2 = Rng(rng.0);
            let res = std::panic::catch_unwind(std::panic::AssertUnwindSafe(|| collections_history(prop, &mut r2, it, true, false)));
            refusal_independent = matches!(&res, Err(p) if p.is::<DryFail>());
        }
        guarded(prop, &["C02", "C15"], "collections", it, || collections_history(prop, &mut rng, it, false, refusal_independent));
    }
}
struct DryFail;
#[allow(unused_variables)]
fn collections_history(prop: &'static str, rng: &mut Rng, it: usize, skip_refused: bool, refusal_independent: bool) {
    {
        let kind = rng.below(4);
        let mut cap = 1 + rng.below(3);
        let mut children: Vec<St> = vec![];
        let mut model: VecDeque<usize> = VecDeque::new();
        let mut pushes = 0usize;
        let mut hist: Vec<String> = vec![];
        // every third history starts from collect() over an iterator with an inexact size hint (from_iter / Extend paths)
        let collected = if rng.below(3) == 0 { 1 + rng.below(4) } else { 0 };
        let mut coll = if collected > 0 {
            let mut futs = vec![];
            for id in 0..collected {
                let st: St = Rc::new(ChildSt::default());
                if rng.below(3) == 0 { st.ready.set(true); }
                children.push(st.clone());
                model.push_back(id);
                futs.push(Fut::new(id, st));
            }
            pushes += collected;
            hist.push(format!("collect({collected} futures through .filter(): inexact size hint)"));
            if collected % 2 == 0 {
                let it = Loose(futs.into_iter(), collected % 3);
                match kind {
                    0 => { cap = collected; Coll::Fub(it.collect()) }
                    1 => Coll::Fu(it.collect()),
                    2 => { cap = collected; Coll::Fob(it.collect()) }
                    _ => Coll::Fo(it.collect()),
                }
            } else {
                let it = Vague(futs.into_iter(), 1);
                match kind {
                    0 => { cap = collected; Coll::Fub(it.collect()) }
                    1 => Coll::Fu(it.collect()),
                    2 => { cap = collected; Coll::Fob(it.collect()) }
                    _ => Coll::Fo(it.collect()),
                }
            }
        } else {
            match kind {
                0 => Coll::Fub(FuturesUnorderedBounded::new(cap)),
                // the unbounded collections also start from capacity 0 (every third history)
                1 => { if it % 3 == 0 { cap = 0; } Coll::Fu(FuturesUnordered::with_capacity(cap)) }
                2 => Coll::Fob(FuturesOrderedBounded::new(cap)),
                _ => { if it % 3 == 0 { cap = 0; } Coll::Fo(FuturesOrdered::with_capacity(cap)) }
            }
        };
        if it % 50 == 0 {
            // zero capacity constructors (C15)
            let _ = FuturesUnorderedBounded::<Fut>::new(0);
            let _ = FuturesOrderedBounded::<Fut>::new(0);
            let _ = FuturesOrdered::<Fut>::with_capacity(0);
            let _ = FuturesUnordered::<Fut>::with_capacity(0);
        }
        let bounded = kind == 0 || kind == 2;
        let scenario = format!("{}(cap={cap})", coll.name());
        let tw = Arc::new(CountWaker(AtomicUsize::new(0)));
        let waker = Waker::from(tw.clone());
        let mut cx = Context::from_waker(&waker);
        let mut yielded: Vec<usize> = vec![];
        let mut wakes_total = 0usize;
        // every fifth history of an unbounded collection is long, so that three and more groups (1 + 2 + 4 ... futures when
        // started from capacity 1) are created, emptied, removed and rotated within one history
        let steps = if !bounded && it % 5 == 2 { 20 + rng.below(25) } else { 4 + rng.below(14) };
        // a refused push must leave the collection undisturbed (C15): once a push has been refused in this history, a
        // lost / misordered output is ALSO evidence against C15
        let refused = Cell::new(false);
        let fail = |props: &[&str], hist: &Vec<String>, what: String| {
            if skip_refused {
                // dry pass (no refused push attempted): only remember whether an output was lost / misordered anyway
                if props.contains(&"C02") || props.contains(&"C04") { std::panic::panic_any(DryFail); }
                return;
            }
            let via_refusal = prop == "C15" && refused.get() && !refusal_independent && (props.contains(&"C02") || props.contains(&"C04"));
            if props.contains(&prop) || via_refusal {
                let what = if via_refusal { format!("{what} (after a refused push in this history: the refusal disturbed the collection)") } else { what };
                report(&Fail { prop, scenario: scenario.clone(), history: hist.clone(), what })
            } else if props.iter().any(|p| CORRUPTING.contains(p)) {
                std::panic::panic_any(AbortHistory)
            }
        };
        for _ in 0..steps {
            match rng.below(10) {
                0 | 1 | 2 => {
                    if let Coll::Fo(c) = &mut coll {
                        if children.len() % 4 == 3 {
                            // a whole batch goes in through Extend (a function without a contract)
                            let k = 2 + children.len() % 3;
                            let mut batch = vec![];
                            for _ in 0..k {
                                let id = children.len();
                                let st: St = Rc::new(ChildSt::default());
                                children.push(st.clone());
                                model.push_back(id);
                                batch.push(Fut::new(id, st));
                            }
                            pushes += k;
                            hist.push(format!("extend({k} futures: {}..{})", children.len() - k, children.len()));
                            c.extend(batch);
                            continue;
                        }
                    }
                    let front = coll.ordered() && rng.below(3) == 0;
                    let id = children.len();
                    let st: St = Rc::new(ChildSt::default());
                    if rng.below(3) == 0 {
                        st.ready.set(true);
                    }
                    if rng.below(6) == 0 {
                        st.self_wake.set(true);
                    }
                    if rng.below(5) == 0 {
                        st.wake_on_ready.set(true);
                    }
                    children.push(st.clone());
                    let before_len = coll.len();
                    let running: usize = model.iter().filter(|i| !children[**i].done.get()).count();
                    let f = Fut::new(id, st.clone());
                    let r = if skip_refused && bounded && running >= cap { Err(f) } else if front { coll.push_front(f) } else { coll.push_back(f) };
                    hist.push(format!("push_{}({id}{}{}{})", if front { "front" } else { "back" }, if st.ready.get() { ",ready" } else { "" }, if st.self_wake.get() { ",selfwake" } else { "" }, if st.wake_on_ready.get() { ",wakes-itself-when-completing" } else { "" }));
                    match r {
                        Ok(()) => {
                            pushes += 1;
                            if bounded && running >= cap {
                                fail(&["C15","C09"], &hist, format!("push accepted although {running} futures are running in a collection of capacity {cap}"));
                            }
                            if front { model.push_front(id) } else { model.push_back(id) }
                            if coll.len() != before_len + 1 {
                                fail(&["C15"], &hist, format!("len {} after accepted push, expected {}", coll.len(), before_len + 1));
                            }
                        }
                        Err(f) => {
                            if !bounded || running < cap {
                                fail(&["C15"], &hist, format!("push refused although only {running} of {cap} futures are running"));
                            }
                            if f.id != id {
                                fail(&["C15","C06"], &hist, "try_push returned a different future".into());
                            }
                            drop(f);
                            refused.set(true);
                            st.dropped.set(0); // the refused future was dropped by us
                            children.pop();
                            if coll.len() != before_len {
                                fail(&["C15"], &hist, "len changed by a refused push".into());
                            }
                        }
                    }
                }
                3 | 4 | 5 | 6 => {
                    let before = tw.0.load(Ordering::SeqCst);
                    let before_polls: Vec<usize> = children.iter().map(|c| c.polls.get()).collect();
                    let r = coll.poll(&mut cx);
                    let after = tw.0.load(Ordering::SeqCst);
                    let child_polls: usize = children.iter().zip(&before_polls).map(|(c, b)| c.polls.get() - b).sum();
                    match r {
                        Poll::Ready(Some(o)) => {
                            hist.push(format!("poll -> Some({})", o.id));
                            if yielded.contains(&o.id) {
                                fail(&["C02","C10"], &hist, format!("output {} yielded twice", o.id));
                            }
                            if !model.contains(&o.id) {
                                fail(&["C02"], &hist, format!("output {} was never accepted / already yielded", o.id));
                            }
                            if coll.ordered() && model.front() != Some(&o.id) {
                                fail(&["C04"], &hist, format!("ordered collection yielded {} but the head of the queue is {:?}", o.id, model.front()));
                            }
                            if children[o.id].dropped.get() != 1 {
                                fail(&["C05"], &hist, format!("future {} not dropped when its output was handed out (drops={})", o.id, children[o.id].dropped.get()));
                            }
                            model.retain(|i| *i != o.id);
                            yielded.push(o.id);
                        }
                        Poll::Ready(None) => {
                            hist.push("poll -> None".into());
                            if !model.is_empty() {
                                fail(if coll.ordered() { &["C02", "C04"] } else { &["C02"] }, &hist, format!("Ready(None) while {} futures/outputs are still held{}", model.len(), if coll.ordered() { " (finished outputs stay parked: the position bookkeeping of the ordered collection is off)" } else { "" }));
                            }
                        }
                        Poll::Pending => {
                            hist.push(format!("poll -> Pending (task wakes {})", after - before));
                            if model.is_empty() {
                                fail(&["C02"], &hist, "Pending although the collection is empty".into());
                            }
                            // C01: a held child that is ready-and-woken / never polled must not be left behind silently
                            let missed: Vec<usize> = model.iter().copied().filter(|i| {
                                let c = &children[*i];
                                !c.done.get() && (c.polls.get() == 0 || c.woken_since_poll.get())
                            }).collect();
                            if !missed.is_empty() && after == before {
                                fail(&["C01","C13"], &hist, format!("Pending with children {:?} pushed/woken but not polled and the task waker not invoked", missed));
                            }
                            // ordered: head ready & woken must not be parked silently
                        }
                    }
                    if child_polls > 61 * 40 {
                        fail(&["C13"], &hist, format!("{child_polls} child polls in one poll call"));
                    }
                    for (i, c) in children.iter().enumerate() {
                        if c.polled_after_done.get() {
                            fail(&["C05"], &hist, format!("future {i} polled again after it returned Ready"));
                        }
                        if c.moved.get() {
                            fail(&["C08"], &hist, format!("future {i} observed at two different addresses"));
                        }
                    }
                    let _ = wakes_total;
                }
                7 => {
                    if !children.is_empty() {
                        let i = rng.below(children.len());
                        children[i].ready.set(true);
                        wake_child(&children[i]);
                        wakes_total += 1;
                        hist.push(format!("complete({i})"));
                    }
                }
                8 => {
                    if !children.is_empty() {
                        let i = rng.below(children.len());
                        wake_child(&children[i]);
                        wakes_total += 1;
                        hist.push(format!("wake({i})"));
                    }
                }
                _ => {
                    // move the collection value (C08)
                    let moved = std::mem::replace(&mut coll, Coll::Fu(FuturesUnordered::new()));
                    let boxed = Box::new(moved);
                    coll = *boxed;
                    hist.push("move collection".into());
                }
            }
            // observers (C15 / C17)
            let expect = model.len();
            if coll.len() != expect || coll.is_empty() != (expect == 0) {
                fail(&["C15"], &hist, format!("len()={} is_empty()={} but {} entries are held", coll.len(), coll.is_empty(), expect));
            }
            let (lo, hi) = coll.size_hint();
            if lo > expect || hi.map(|h| h < expect).unwrap_or(false) {
                fail(&["C17","C15"], &hist, format!("size_hint ({lo},{hi:?}) does not bracket {expect}"));
            }
            if lo != expect || hi != Some(expect) {
                fail(&["C15"], &hist, format!("size_hint ({lo},{hi:?}) of the collection is not exactly ({expect}, Some({expect}))"));
            }
            // C12: total child polls <= pushes + wakes (+ self wakes counted as wakes)
            let total_polls: usize = children.iter().map(|c| c.polls.get()).sum();
            let self_wakes: usize = children.iter().filter(|c| c.self_wake.get()).map(|c| c.polls.get()).sum();
            if total_polls > pushes + wakes_total + self_wakes {
                fail(&["C12"], &hist, format!("{total_polls} child polls but only {pushes} pushes + {wakes_total} wakes (+{self_wakes} self wakes)"));
            }
        }
        // quiesce (C14): no child wakes any more -> within held+2 polls a Pending without task wake
        for c in &children {
            c.self_wake.set(false);
        }
        let held = model.len();
        let mut quiet = model.is_empty();
        for _ in 0..(held + 2) * 3 {
            let before = tw.0.load(Ordering::SeqCst);
            match coll.poll(&mut cx) {
                Poll::Pending => {
                    if tw.0.load(Ordering::SeqCst) == before {
                        quiet = true;
                        break;
                    }
                }
                Poll::Ready(Some(o)) => {
                    if coll.ordered() && model.front() != Some(&o.id) {
                        fail(&["C04"], &hist, format!("ordered collection yielded {} but the head of the queue is {:?}", o.id, model.front()));
                    }
                    model.retain(|i| *i != o.id);
                }
                Poll::Ready(None) => {
                    if !model.is_empty() {
                        fail(if coll.ordered() { &["C02", "C04"] } else { &["C02"] }, &hist, format!("Ready(None) while {} entries are held", model.len()));
                    }
                    quiet = true;
                    break;
                }
            }
        }
        if !quiet {
            hist.push("(quiesce)".into());
            fail(&["C14"], &hist, "the task keeps being woken although no child wakes".into());
        }
        // drain: complete everything, everything must come out exactly once, in order
        for c in &children {
            c.ready.set(true);
            wake_child(c);
        }
        let mut guard = 0;
        while !model.is_empty() {
            guard += 1;
            if guard > 10_000 {
                hist.push("(drain)".into());
                fail(if coll.ordered() { &["C02", "C01", "C04"] } else { &["C02", "C01"] }, &hist, format!("outputs {:?} never yielded although every future is ready and woken", model));
                break;
            }
            match coll.poll(&mut cx) {
                Poll::Ready(Some(o)) => {
                    if coll.ordered() && model.front() != Some(&o.id) {
                        hist.push("(drain)".into());
                        fail(&["C04"], &hist, format!("ordered collection yielded {} but the head of the queue is {:?}", o.id, model.front()));
                    }
                    if !model.contains(&o.id) {
                        fail(&["C02","C10"], &hist, format!("output {} yielded twice / never accepted", o.id));
                    }
                    model.retain(|i| *i != o.id);
                }
                Poll::Ready(None) => {
                    hist.push("(drain)".into());
                    fail(if coll.ordered() { &["C02", "C04"] } else { &["C02"] }, &hist, format!("Ready(None) while {:?} are still held", model));
                    break;
                }
                Poll::Pending => {}
            }
        }
        drop(coll);
        for (i, c) in children.iter().enumerate() {
            if c.dropped.get() != 1 {
                hist.push("(drop collection)".into());
                fail(&["C06"], &hist, format!("future {i} dropped {} times", c.dropped.get()));
            }
            if c.moved.get() {
                fail(&["C08"], &hist, format!("future {i} was polled at one address and polled again or dropped at another"));
            }
            if c.done.get() && c.out_dropped.get() != 1 {
                fail(&["C06"], &hist, format!("output {i} dropped {} times", c.out_dropped.get()));
            }
        }
    }
}

// ------------------------------------------------------------------------------------------------ adapters (C09 C10 C16 C17 C04)
// ------------------------------------------------------------------------------------------------ starvation scenarios (C13)
/// K futures that wake themselves on every poll plus one victim that is woken once from outside: the victim must be
/// polled again within a number of collection polls linear in the population, wherever it sits in the ready queue
/// and however the population relates to the per-call budget (61 child polls) or to the group sizes.
fn run_fairness(prop: &'static str) {
    if prop != "C13" {
        return;
    }
    // pushes interleaved with polls: every call is preceded by a push of a ready future (it lands in the newest group); a woken
    // victim in the oldest group must still be reached within a linear number of calls
    for kind in [1usize, 3] {
        for &held in &[40usize, 100] {
            let mut coll = if kind == 1 { Coll::Fu(FuturesUnordered::new()) } else { Coll::Fo(FuturesOrdered::new()) };
            let scenario = format!("{}: {held} pending futures in several groups, then one ready future is pushed before every poll; the first future is woken", coll.name());
            let mut children: Vec<St> = vec![];
            for id in 0..held {
                let st: St = Rc::new(ChildSt::default());
                children.push(st.clone());
                let _ = coll.push_back(Fut::new(id, st));
            }
            let tw = Arc::new(CountWaker(AtomicUsize::new(0)));
            let waker = Waker::from(tw.clone());
            let mut cx = Context::from_waker(&waker);
            for _ in 0..(held / 30 + 4) { let _ = coll.poll(&mut cx); }
            let before = children[0].polls.get();
            wake_child(&children[0]);
            let bound = 3 * held + 10;
            let mut calls = 0;
            let mut id = held;
            while children[0].polls.get() == before && calls < bound {
                let st: St = Rc::new(ChildSt::default());
                st.ready.set(true);
                if kind == 1 { let _ = coll.push_back(Fut::new(id, st)); } else { let _ = coll.push_front(Fut::new(id, st)); }
                id += 1;
                let _ = coll.poll(&mut cx);
                calls += 1;
            }
            if children[0].polls.get() == before {
                report(&Fail { prop, scenario, history: vec![format!("push x{held}; poll until all were polled"), "wake(0)".into(), format!("(push ready; poll) x{calls}")], what: format!("the woken future 0 was not polled again within {bound} polls while a ready future was pushed before each of them") });
            }
        }
    }
    for kind in 0..4usize {
        for &k in &[1usize, 2, 31, 32, 33, 59, 60, 61, 62, 63, 64, 95, 96, 97, 121, 122, 123, 124, 125, 185, 186] {
            for vpos in 0..3usize {
                let total = k + 1;
                let vidx = match vpos { 0 => 0, 1 => total / 2, _ => total - 1 };
                let mut coll = match kind {
                    0 => Coll::Fub(FuturesUnorderedBounded::new(total)),
                    1 => Coll::Fu(FuturesUnordered::new()),
                    2 => Coll::Fob(FuturesOrderedBounded::new(total)),
                    _ => Coll::Fo(FuturesOrdered::new()),
                };
                let scenario = format!("{}: {k} futures that wake themselves on every poll + 1 victim pushed at position {vidx}", coll.name());
                let mut children: Vec<St> = vec![];
                let mut hist: Vec<String> = vec![];
                for id in 0..total {
                    let st: St = Rc::new(ChildSt::default());
                    if id != vidx {
                        st.self_wake.set(true);
                    }
                    children.push(st.clone());
                    if coll.push_back(Fut::new(id, st)).is_err() {
                        return;
                    }
                }
                hist.push(format!("push x{total} (victim = {vidx})"));
                let tw = Arc::new(CountWaker(AtomicUsize::new(0)));
                let waker = Waker::from(tw.clone());
                let mut cx = Context::from_waker(&waker);
                // first: let every child be polled once (bounded number of calls)
                let bound = 2 * total + 8;
                let mut calls = 0;
                while children[vidx].polls.get() == 0 && calls < bound {
                    let _ = coll.poll(&mut cx);
                    calls += 1;
                }
                hist.push(format!("poll x{calls}"));
                if children[vidx].polls.get() == 0 {
                    report(&Fail { prop, scenario, history: hist, what: format!("the pushed victim was not polled within {bound} polls of the collection") });
                }
                let before = children[vidx].polls.get();
                wake_child(&children[vidx]);
                hist.push(format!("wake({vidx})"));
                let mut calls = 0;
                while children[vidx].polls.get() == before && calls < bound {
                    let _ = coll.poll(&mut cx);
                    calls += 1;
                }
                hist.push(format!("poll x{calls}"));
                if children[vidx].polls.get() == before {
                    report(&Fail { prop, scenario, history: hist, what: format!("the woken victim was not polled again within {bound} polls of the collection ({} self-waking neighbours)", k) });
                }
            }
        }
    }
}
/// More children than the per-call budget (61 child polls), none of them waking: a poll that stops early must have woken
/// its task (C13), and no pushed child may stay un-polled behind a Pending that nobody will follow up (C01).
fn run_budget(prop: &'static str) {
    for kind in 0..4usize {
        for &n in &[3usize, 40, 60, 61, 62, 63, 100, 122, 123, 124, 200] {
            let mut coll = match kind {
                0 => Coll::Fub(FuturesUnorderedBounded::new(n)),
                1 => Coll::Fu(FuturesUnordered::new()),
                2 => Coll::Fob(FuturesOrderedBounded::new(n)),
                _ => Coll::Fo(FuturesOrdered::new()),
            };
            let scenario = format!("{}: {n} pending futures pushed, none wakes", coll.name());
            let mut children: Vec<St> = vec![];
            for id in 0..n {
                let st: St = Rc::new(ChildSt::default());
                children.push(st.clone());
                if coll.push_back(Fut::new(id, st)).is_err() {
                    return;
                }
            }
            let tw = Arc::new(CountWaker(AtomicUsize::new(0)));
            let waker = Waker::from(tw.clone());
            let mut cx = Context::from_waker(&waker);
            let mut hist = vec![format!("push x{n}")];
            for call in 0..(n + 4) {
                let before = tw.0.load(Ordering::SeqCst);
                let r = coll.poll(&mut cx);
                let woke = tw.0.load(Ordering::SeqCst) > before;
                hist.push(format!("poll -> {} (task woken: {woke})", if r.is_pending() { "Pending" } else { "Ready" }));
                let unpolled = children.iter().filter(|c| c.polls.get() == 0).count();
                if r.is_pending() && unpolled > 0 && !woke && (prop == "C01" || prop == "C13") {
                    report(&Fail { prop, scenario, history: hist, what: format!("call {call} returned Pending with {unpolled} pushed futures never polled and did not wake its task") });
                }
                if unpolled == 0 {
                    break;
                }
            }
            // nobody woke anybody: every child is polled exactly once, for its push (C12)
            for _ in 0..3 {
                let _ = coll.poll(&mut cx);
            }
            // ... also when the collection moves to another task (a different task waker is a registration, not a wake)
            let tw2 = Arc::new(CountWaker(AtomicUsize::new(0)));
            let waker2 = Waker::from(tw2.clone());
            let mut cx2 = Context::from_waker(&waker2);
            let before_move: usize = children.iter().map(|c| c.polls.get()).sum();
            for _ in 0..2 {
                let _ = coll.poll(&mut cx2);
                let _ = coll.poll(&mut cx);
            }
            let total: usize = children.iter().map(|c| c.polls.get()).sum();
            if prop == "C12" && total > before_move && before_move <= n {
                hist.push("poll x3; poll with the waker of another task, poll with the first waker, twice".into());
                report(&Fail { prop, scenario: scenario.clone(), history: hist.clone(), what: format!("{} child polls after the collection was polled from another task: {n} pushes, no wake at all", total - before_move) });
            }
            if prop == "C12" && total > n {
                let worst = children.iter().enumerate().max_by_key(|(_, c)| c.polls.get()).map(|(i, c)| (i, c.polls.get())).unwrap();
                hist.push("poll x3".into());
                report(&Fail { prop, scenario, history: hist, what: format!("{total} child polls for {n} pushes and no wake at all (future {} was polled {} times)", worst.0, worst.1) });
            }
        }
    }
}
/// One ready child among pending ones, placed around the per-call budget (61 child polls, twice that for two calls): the
/// result of a child poll is never thrown away when a call stops early (C02), and the finished child is released in the
/// call that polled it (C05).
fn run_budget_edge(prop: &'static str) {
    if prop != "C02" && prop != "C05" {
        return;
    }
    for kind in 0..4usize {
        for &r in &[0usize, 58, 59, 60, 61, 62, 63, 120, 121, 122, 123, 124] {
            let n = r + 3;
            let mut coll = match kind {
                0 => Coll::Fub(FuturesUnorderedBounded::new(n)),
                1 => Coll::Fu(FuturesUnordered::new()),
                2 => Coll::Fob(FuturesOrderedBounded::new(n)),
                _ => Coll::Fo(FuturesOrdered::new()),
            };
            let scenario = format!("{}: {n} futures pushed, only future {r} is ready, the others sleep", coll.name());
            let mut children: Vec<St> = vec![];
            for id in 0..n {
                let st: St = Rc::new(ChildSt::default());
                st.ready.set(id == r);
                children.push(st.clone());
                if coll.push_back(Fut::new(id, st)).is_err() { return; }
            }
            let tw = Arc::new(CountWaker(AtomicUsize::new(0)));
            let waker = Waker::from(tw.clone());
            let mut cx = Context::from_waker(&waker);
            let mut hist = vec![format!("push x{n} (future {r} ready)")];
            let mut yielded = false;
            for _ in 0..(n / 30 + 4) {
                let res = coll.poll(&mut cx);
                hist.push(format!("poll -> {}", match &res { Poll::Ready(Some(o)) => format!("output {}", o.id), Poll::Ready(None) => "None".into(), Poll::Pending => "Pending".into() }));
                let c = &children[r];
                if let Poll::Ready(Some(o)) = &res { if o.id == r { yielded = true; } }
                if c.done.get() && c.dropped.get() == 0 && prop == "C05" {
                    report(&Fail { prop, scenario: scenario.clone(), history: hist.clone(), what: format!("future {r} returned Ready during this call and is still held when the call returns") });
                }
                if c.polled_after_done.get() && prop == "C05" {
                    report(&Fail { prop, scenario: scenario.clone(), history: hist.clone(), what: format!("future {r} was polled again after it returned Ready") });
                }
                if c.done.get() && !yielded && c.out_dropped.get() > 0 && prop == "C02" {
                    report(&Fail { prop, scenario: scenario.clone(), history: hist.clone(), what: format!("the output of future {r} was dropped inside the collection without being yielded") });
                }
                drop(res);
            }
            if kind < 2 && !yielded && prop == "C02" {
                report(&Fail { prop, scenario, history: hist, what: format!("future {r} is ready (it was polled {} times) but its output was never yielded in {} calls", children[r].polls.get(), n / 30 + 4) });
            }
        }
    }
}
/// C14: children that wake themselves in the very poll in which they complete leave stale entries in the ready queue; with
/// one sleeping child left and nobody waking anybody, a quiet Pending (task waker not invoked) must be reached within
/// held + 2 polls.
fn run_quiescence(prop: &'static str) {
    if prop != "C14" {
        return;
    }
    for kind in 0..4usize {
        for k in 1..=6usize {
            let mut coll = match kind {
                0 => Coll::Fub(FuturesUnorderedBounded::new(8)),
                1 => Coll::Fu(FuturesUnordered::new()),
                2 => Coll::Fob(FuturesOrderedBounded::new(8)),
                _ => Coll::Fo(FuturesOrdered::new()),
            };
            let scenario = format!("{}: {k} futures that invoke their own waker while completing, then 1 sleeping future", coll.name());
            let tw = Arc::new(CountWaker(AtomicUsize::new(0)));
            let waker = Waker::from(tw.clone());
            let mut cx = Context::from_waker(&waker);
            let mut hist = vec![];
            for id in 0..k {
                let st: St = Rc::new(ChildSt::default());
                st.ready.set(true);
                st.wake_on_ready.set(true);
                if coll.push_back(Fut::new(id, st)).is_err() { return; }
            }
            let sleeper: St = Rc::new(ChildSt::default());
            if coll.push_back(Fut::new(k, sleeper.clone())).is_err() { return; }
            hist.push(format!("push x{k} (ready, self-waking on completion), push sleeper"));
            let mut got = 0;
            let mut guard = 0;
            while got < k && guard < 4 * k + 8 {
                guard += 1;
                if let Poll::Ready(Some(_)) = coll.poll(&mut cx) { got += 1; }
            }
            hist.push(format!("poll until {got} outputs are out"));
            let mut quiet = false;
            let mut noisy = 0;
            for _ in 0..3 {
                let before = tw.0.load(Ordering::SeqCst);
                let r = coll.poll(&mut cx);
                let woke = tw.0.load(Ordering::SeqCst) > before;
                hist.push(format!("poll -> {} (task woken: {woke})", if r.is_pending() { "Pending" } else { "Ready" }));
                if r.is_pending() && !woke { quiet = true; break; }
                noisy += 1;
            }
            if got == k && !quiet {
                report(&Fail { prop, scenario, history: hist, what: format!("{noisy} polls in a row woke the task although the only held future sleeps and nobody invoked a waker (bound: held + 2 = 3 polls)") });
            }
        }
    }
}
/// C14, second sentence: between polls the task waker is invoked only as a consequence of a child waker being invoked - so
/// not by a push, whatever group boundary (32, 96, 224 children) the push crosses.
fn run_push_is_silent(prop: &'static str) {
    if prop != "C14" {
        return;
    }
    for kind in 0..6usize {
        let tw = Arc::new(CountWaker(AtomicUsize::new(0)));
        let waker = Waker::from(tw.clone());
        let mut cx = Context::from_waker(&waker);
        let mut coll = match kind {
            0 => Some(Coll::Fub(FuturesUnorderedBounded::new(240))),
            1 => Some(Coll::Fu(FuturesUnordered::new())),
            2 => Some(Coll::Fob(FuturesOrderedBounded::new(240))),
            3 => Some(Coll::Fo(FuturesOrdered::new())),
            _ => None,
        };
        let mut mu: MergeUnbounded<Src> = MergeUnbounded::new();
        let mut rng = Rng(9);
        let name = match (&coll, kind) { (Some(c), _) => c.name().to_string(), (None, 4) => "MergeUnbounded".to_string(), _ => "MergeUnbounded (polled only once at the start)".to_string() };
        let mut keep = vec![];
        for k in 0..230usize {
            let before = tw.0.load(Ordering::SeqCst);
            match &mut coll {
                Some(c) => { let st: St = Rc::new(ChildSt::default()); keep.push(st.clone()); if c.push_back(Fut::new(k, st)).is_err() { break; } }
                None => { let (src, st) = mk_src(k, &mut rng); st.script.borrow_mut().clear(); for _ in 0..4000 { st.script.borrow_mut().push_back(Up::Pending); } mu.push(src); }
            }
            if tw.0.load(Ordering::SeqCst) > before {
                report(&Fail { prop, scenario: format!("{name}: sleeping children pushed one at a time, the collection polled to a quiet Pending in between"), history: vec![format!("(push; poll x4) x{k}"), "push".into()],
                    what: format!("push #{} invoked the task waker although no child waker was invoked", k + 1) });
            }
            if kind != 5 || k == 0 {
                for _ in 0..4 {
                    let _ = match &mut coll { Some(c) => c.poll(&mut cx).is_pending(), None => Pin::new(&mut mu).poll_next(&mut cx).is_pending() };
                }
            }
        }
    }
}
/// C14 for merges and adapters: everything held sleeps, nobody wakes anybody: a quiet Pending within held + 2 polls.
fn run_quiescence_wrappers(prop: &'static str) {
    if prop != "C14" {
        return;
    }
    let tw = Arc::new(CountWaker(AtomicUsize::new(0)));
    let waker = Waker::from(tw.clone());
    let mut cx = Context::from_waker(&waker);
    // merges: some sources end, the others sleep
    for unb in [false, true] {
        for &(nsrc, ending) in &[(1usize, 0usize), (3, 1), (33, 1), (34, 2), (40, 8), (97, 1), (100, 36)] {
            let mut rng = Rng(5);
            let mut sts = vec![];
            let mut srcs = vec![];
            for i in 0..nsrc {
                let (s, st) = mk_src(i, &mut rng);
                st.script.borrow_mut().clear();
                if i + ending >= nsrc { st.script.borrow_mut().push_back(Up::End); } else { for _ in 0..1000 { st.script.borrow_mut().push_back(Up::Pending); } }
                sts.push(st);
                srcs.push(s);
            }
            enum M3 { B(MergeBounded<Src>), U(MergeUnbounded<Src>) }
            let mut m = if unb { let mut mu = MergeUnbounded::new(); for s in srcs { mu.push(s); } M3::U(mu) } else { M3::B(srcs.into_iter().collect()) };
            let held = nsrc - ending;
            let bound = held + 2 + ending;
            let mut trail = vec![];
            let mut quiet_at = None;
            for k in 0..(bound + 6) {
                let before = tw.0.load(Ordering::SeqCst);
                let r = match &mut m { M3::B(m) => Pin::new(m).poll_next(&mut cx), M3::U(m) => Pin::new(m).poll_next(&mut cx) };
                let woke = tw.0.load(Ordering::SeqCst) > before;
                trail.push(format!("poll -> {} (task woken: {woke})", if r.is_pending() { "Pending" } else { "Ready" }));
                if r.is_pending() && !woke { quiet_at = Some(k); }
                else if quiet_at.is_some() { quiet_at = None; }
            }
            let tail_noisy = trail.iter().rev().take(3).all(|t| t.starts_with("poll -> Pending") && t.ends_with("true)"));
            let _ = quiet_at;
            if held > 0 && tail_noisy {
                report(&Fail { prop, scenario: format!("{}: {nsrc} sources, the last {ending} end at once, the others sleep; nobody invokes a waker", if unb { "MergeUnbounded" } else { "MergeBounded" }),
                    history: trail.iter().rev().take(6).rev().cloned().collect(), what: format!("after {} polls the merge still wakes its task although every held source sleeps (bound: held + 2)", bound + 6) });
            }
        }
    }
    // joins: some inputs have completed, the others sleep
    for try_variant in [false, true] {
        for n in 2..=5usize {
            for done_mask in 0..(1usize << n) - 1 {
                let sts: Vec<St> = (0..n).map(|i| { let s: St = Rc::new(ChildSt::default()); s.ready.set((done_mask >> i) & 1 == 1); s }).collect();
                let mut trail = vec![];
                macro_rules! drive { ($j:expr) => {{
                    for _ in 0..(n + 6) {
                        let before = tw.0.load(Ordering::SeqCst);
                        let r = $j.as_mut().poll(&mut cx);
                        let woke = tw.0.load(Ordering::SeqCst) > before;
                        trail.push(format!("poll -> {} (task woken: {woke})", if r.is_pending() { "Pending" } else { "Ready" }));
                        std::mem::forget(r);
                    }
                }}; }
                if try_variant {
                    let mut j = Box::pin(try_join_all(sts.iter().enumerate().map(|(i, s)| TFut(Fut::new(i, s.clone()))).collect::<Vec<_>>()));
                    drive!(j);
                } else {
                    let mut j = Box::pin(join_all(sts.iter().enumerate().map(|(i, s)| Fut::new(i, s.clone())).collect::<Vec<_>>()));
                    drive!(j);
                }
                for s in &sts { s.waker.borrow_mut().take(); }
                if trail.iter().rev().take(3).all(|t| t.starts_with("poll -> Pending") && t.ends_with("true)")) {
                    report(&Fail { prop, scenario: format!("{}: {n} inputs, those of mask {done_mask:#b} complete at their first poll, the others sleep; nobody invokes a waker", if try_variant { "try_join_all" } else { "join_all" }),
                        history: trail.iter().rev().take(6).rev().cloned().collect(), what: format!("after {} polls the combinator still wakes its task on every poll although every input it still holds sleeps", n + 6) });
                }
            }
        }
    }
    // adapters: n sleeping jobs in flight (or none), upstream pending for ever
    for which in 0..5usize {
        for n in 0..=3usize {
            for jobs in 0..=n {
                let mut script: Vec<Up> = vec![Up::Item; jobs];
                for _ in 0..200 { script.push(Up::Pending); }
                type BoxS = Pin<Box<dyn Stream<Item = Result<usize, usize>>>>;
                let names = ["buffered_unordered", "buffered_ordered", "try_buffered_unordered", "try_buffered_ordered", "for_each_concurrent"];
                let (mut s, _ust): (BoxS, Rc<UpSt>) = match which {
                    0 => { let (u, st) = upstream(&script, Box::new(move |id, c| Fut::new(id, c))); (Box::pin(MapOk(u.buffered_unordered(n))), st) }
                    1 => { let (u, st) = upstream(&script, Box::new(move |id, c| Fut::new(id, c))); (Box::pin(MapOk(u.buffered_ordered(n))), st) }
                    2 => { let (u, st) = upstream(&script, Box::new(move |id, c: St| Ok::<TFut, usize>(TFut(Fut::new(id, c))))); (Box::pin(MapTry(u.try_buffered_unordered(n))), st) }
                    3 => { let (u, st) = upstream(&script, Box::new(move |id, c: St| Ok::<TFut, usize>(TFut(Fut::new(id, c))))); (Box::pin(MapTry(u.try_buffered_ordered(n))), st) }
                    _ => { let (u, st) = upstream(&script, Box::new(move |id, c: St| (id, c))); let f = u.for_each_concurrent(n, move |(id, c): (usize, St)| UnitFut(Fut::new(id, c))); (Box::pin(FutStream(Some(Box::pin(f)))), st) }
                };
                let mut trail = vec![];
                for _ in 0..(jobs + 8) {
                    let before = tw.0.load(Ordering::SeqCst);
                    let r = s.as_mut().poll_next(&mut cx);
                    let woke = tw.0.load(Ordering::SeqCst) > before;
                    trail.push(format!("poll -> {} (task woken: {woke})", if r.is_pending() { "Pending" } else { "Ready" }));
                }
                if trail.iter().rev().take(3).all(|t| t.starts_with("poll -> Pending") && t.ends_with("true)")) {
                    report(&Fail { prop, scenario: format!("{}({n}): {jobs} sleeping jobs pulled, upstream pending for ever; nobody invokes a waker", names[which]),
                        history: trail.iter().rev().take(6).rev().cloned().collect(), what: format!("after {} polls the adapter still wakes its task on every poll although everything it holds sleeps", jobs + 8) });
                }
            }
        }
    }
}
/// an upstream that is NOT `Unpin` and remembers where it was first polled; polled or dropped elsewhere = moved
struct PinnedUp<T> {
    inner: Upstream<T>,
    addr: Rc<Cell<usize>>,
    moved: Rc<Cell<bool>>,
    _pin: std::marker::PhantomPinned,
}
impl<T> Stream for PinnedUp<T> {
    type Item = T;
    fn poll_next(self: Pin<&mut Self>, cx: &mut Context<'_>) -> Poll<Option<T>> {
        let a = &*self as *const _ as usize;
        if self.addr.get() == 0 { self.addr.set(a); } else if self.addr.get() != a { self.moved.set(true); }
        let this = unsafe { self.get_unchecked_mut() };
        Pin::new(&mut this.inner).poll_next(cx)
    }
    fn size_hint(&self) -> (usize, Option<usize>) { self.inner.size_hint() }
}
impl<T> Drop for PinnedUp<T> {
    fn drop(&mut self) {
        let a = self as *const _ as usize;
        if self.addr.get() != 0 && self.addr.get() != a { self.moved.set(true); }
    }
}
/// C08 for the upstream of the adapters: a pinned (`!Unpin`) upstream stays where it was polled until it is dropped - also
/// when the adapter lets go of it because it has ended.
fn run_upstream_pinned(prop: &'static str) {
    if prop != "C08" {
        return;
    }
    let tw = Arc::new(CountWaker(AtomicUsize::new(0)));
    let waker = Waker::from(tw.clone());
    let mut cx = Context::from_waker(&waker);
    let names = ["buffered_unordered", "buffered_ordered", "try_buffered_unordered", "try_buffered_ordered", "for_each_concurrent"];
    for which in 0..5usize {
        for n in 1..=3usize {
            for script in [vec![Up::Item, Up::Item, Up::End], vec![Up::Item, Up::Pending, Up::Item, Up::Item, Up::Item, Up::End], vec![Up::End]] {
                let addr = Rc::new(Cell::new(0usize));
                let moved = Rc::new(Cell::new(false));
                type BoxS = Pin<Box<dyn Stream<Item = Result<usize, usize>>>>;
                macro_rules! pinned { ($u:expr) => { PinnedUp { inner: $u, addr: addr.clone(), moved: moved.clone(), _pin: std::marker::PhantomPinned } }; }
                let (mut s, ust): (BoxS, Rc<UpSt>) = match which {
                    0 => { let (u, st) = upstream(&script, Box::new(move |id, c| Fut::new(id, c))); (Box::pin(MapOk(Box::pin(pinned!(u).buffered_unordered(n)))), st) }
                    1 => { let (u, st) = upstream(&script, Box::new(move |id, c| Fut::new(id, c))); (Box::pin(MapOk(Box::pin(pinned!(u).buffered_ordered(n)))), st) }
                    2 => { let (u, st) = upstream(&script, Box::new(move |id, c: St| Ok::<TFut, usize>(TFut(Fut::new(id, c))))); (Box::pin(MapTry(Box::pin(pinned!(u).try_buffered_unordered(n)))), st) }
                    3 => { let (u, st) = upstream(&script, Box::new(move |id, c: St| Ok::<TFut, usize>(TFut(Fut::new(id, c))))); (Box::pin(MapTry(Box::pin(pinned!(u).try_buffered_ordered(n)))), st) }
                    _ => { let (u, st) = upstream(&script, Box::new(move |id, c: St| (id, c))); let f = pinned!(u).for_each_concurrent(n, move |(id, c): (usize, St)| UnitFut(Fut::new(id, c))); (Box::pin(FutStream(Some(Box::pin(f)))), st) }
                };
                for round in 0..12 {
                    let _ = s.as_mut().poll_next(&mut cx);
                    if round % 2 == 1 { for c in ust.children.borrow().iter() { c.ready.set(true); wake_child(c); } }
                }
                drop(s);
                if moved.get() {
                    report(&Fail { prop, scenario: format!("{}({n}) over a pinned (!Unpin) upstream with script {script:?}", names[which]), history: vec!["poll x12 (jobs complete every second round)".into(), "drop".into()],
                        what: "the upstream was polled or dropped at a different address than the one it was first polled at".into() });
                }
            }
        }
    }
}
/// C08 for the adapters: an adapter over an `Unpin` upstream is itself `Unpin`, so safe code may move it between polls (into a
/// Box, a Vec, another variable).  The futures it holds have been polled and must stay where they are.
fn run_adapter_moved(prop: &'static str) {
    if prop != "C08" {
        return;
    }
    let tw = Arc::new(CountWaker(AtomicUsize::new(0)));
    let waker = Waker::from(tw.clone());
    let mut cx = Context::from_waker(&waker);
    fn check(prop: &'static str, name: &str, n: usize, ust: &Rc<UpSt>) {
        let moved: Vec<usize> = ust.children.borrow().iter().enumerate().filter(|(_, c)| c.moved.get()).map(|(i, _)| i).collect();
        if !moved.is_empty() {
            report(&Fail { prop, scenario: format!("{name}({n}) over an Unpin upstream: polled, moved into a Box, polled again, moved back out and dropped"), history: vec!["poll".into(), "Box::new(adapter)".into(), "poll x2".into(), "*boxed (move out); drop".into()],
                what: format!("job(s) {moved:?} were polled (or dropped) at a different address than the one they were first polled at") });
        }
    }
    for n in 1..=3usize {
        let script = [Up::Item, Up::Item, Up::Item, Up::Pending, Up::Pending, Up::Pending, Up::Pending, Up::Pending, Up::Pending];
        {
            let (u, ust) = upstream(&script, Box::new(move |id, c| Fut::new(id, c)));
            let mut s = u.buffered_ordered(n);
            let _ = Pin::new(&mut s).poll_next(&mut cx).is_pending();
            let mut b = Box::new(s);
            for _ in 0..2 { let _ = Pin::new(&mut *b).poll_next(&mut cx).is_pending(); }
            let s2 = *b;
            drop(s2);
            check(prop, "buffered_ordered", n, &ust);
        }
        {
            let (u, ust) = upstream(&script, Box::new(move |id, c| Fut::new(id, c)));
            let mut s = u.buffered_unordered(n);
            let _ = Pin::new(&mut s).poll_next(&mut cx).is_pending();
            let mut b = Box::new(s);
            for _ in 0..2 { let _ = Pin::new(&mut *b).poll_next(&mut cx).is_pending(); }
            let s2 = *b;
            drop(s2);
            check(prop, "buffered_unordered", n, &ust);
        }
        {
            let (u, ust) = upstream(&script, Box::new(move |id, c: St| Ok::<TFut, usize>(TFut(Fut::new(id, c)))));
            let mut s = u.try_buffered_ordered(n);
            let _ = Pin::new(&mut s).poll_next(&mut cx).is_pending();
            let mut b = Box::new(s);
            for _ in 0..2 { let _ = Pin::new(&mut *b).poll_next(&mut cx).is_pending(); }
            let s2 = *b;
            drop(s2);
            check(prop, "try_buffered_ordered", n, &ust);
        }
        {
            let (u, ust) = upstream(&script, Box::new(move |id, c: St| Ok::<TFut, usize>(TFut(Fut::new(id, c)))));
            let mut s = u.try_buffered_unordered(n);
            let _ = Pin::new(&mut s).poll_next(&mut cx).is_pending();
            let mut b = Box::new(s);
            for _ in 0..2 { let _ = Pin::new(&mut *b).poll_next(&mut cx).is_pending(); }
            let s2 = *b;
            drop(s2);
            check(prop, "try_buffered_unordered", n, &ust);
        }
    }
}
/// C08 beyond the small scope: more children than any eager reservation or small group (capacities above 1024), so that a
/// storage that grows by re-allocation shows.
fn run_address_big(prop: &'static str) {
    if prop != "C08" {
        return;
    }
    let tw = Arc::new(CountWaker(AtomicUsize::new(0)));
    let waker = Waker::from(tw.clone());
    let mut cx = Context::from_waker(&waker);
    for kind in 0..4usize {
        let total = 3200usize;
        let mut coll = match kind {
            0 => Coll::Fub(FuturesUnorderedBounded::new(total)),
            1 => Coll::Fu(FuturesUnordered::new()),
            2 => Coll::Fob(FuturesOrderedBounded::new(total)),
            _ => Coll::Fo(FuturesOrdered::new()),
        };
        let scenario = format!("{}: {total} pending futures pushed one by one, the collection polled after every 100 pushes", coll.name());
        let mut children: Vec<St> = vec![];
        for id in 0..total {
            let st: St = Rc::new(ChildSt::default());
            children.push(st.clone());
            if coll.push_back(Fut::new(id, st)).is_err() { return; }
            if id % 100 == 99 {
                for _ in 0..4 { let _ = coll.poll(&mut cx); }
                if let Some((i, _)) = children.iter().enumerate().find(|(_, c)| c.moved.get()) {
                    report(&Fail { prop, scenario, history: vec![format!("push x{}; poll", id + 1)], what: format!("future {i} was polled at two different addresses (after {} pushes)", id + 1) });
                }
            }
        }
        for c in &children { wake_child(c); }
        for _ in 0..(total / 50 + 4) { let _ = coll.poll(&mut cx); }
        drop(coll);
        if let Some((i, _)) = children.iter().enumerate().find(|(_, c)| c.moved.get()) {
            report(&Fail { prop, scenario, history: vec![format!("push x{total}; wake all; poll; drop")], what: format!("future {i} was polled at one address and polled again or dropped at another") });
        }
    }
}
fn run_adapters(prop: &'static str, seed: u64, iters: usize) {
    let mut rng = Rng(seed.wrapping_mul(0xD1B54A32D192ED03) | 1);
    for it in 0..iters {
        guarded(prop, &["C09", "C10"], "run_adapters", it, || {
        // every 40th history is a burst: many immediately-ready jobs, so that internal per-poll budgets are crossed
        let burst = it % 40 == 39;
        let n = if burst { [1usize, 4, 48, 65, 130][rng.below(5)] } else { 1 + rng.below(3) };
        let len = if burst { 100 + rng.below(100) } else { rng.below(8) };
        let mut script: Vec<Up> = vec![];
        for _ in 0..len {
            script.push(if !burst && rng.below(4) == 0 { Up::Pending } else { Up::Item });
        }
        let which = rng.below(5);
        if (which == 2 || which == 3) && !burst && rng.below(3) == 0 {
            for u in script.iter_mut() {
                if *u == Up::Item && rng.below(4) == 0 { *u = Up::ErrItem; }
            }
        }
        script.push(Up::End);
        let err_mask: u64 = if rng.below(3) == 0 { rng.next() & rng.next() } else { 0 };
        let ready_mask: u64 = if burst { if rng.below(2) == 0 { u64::MAX } else { 0 } } else if rng.below(2) == 0 { rng.next() } else { 0 };
        let init = move |id: usize, c: &St| {
            if (err_mask >> (id % 64)) & 1 == 1 { c.err.set(true); }
            if (ready_mask >> (id % 64)) & 1 == 1 { c.ready.set(true); }
        };
        let names = ["buffered_unordered", "buffered_ordered", "try_buffered_unordered", "try_buffered_ordered", "for_each_concurrent"];
        let scenario = format!("{}({n}) upstream={:?}", names[which], script);
        let ordered = which == 1 || which == 3;
        let tw = Arc::new(CountWaker(AtomicUsize::new(0)));
        let waker = Waker::from(tw.clone());
        let mut cx = Context::from_waker(&waker);
        let mut hist: Vec<String> = vec![];
        let fail = |props: &[&str], hist: &Vec<String>, what: String| { if props.contains(&prop) { report(&Fail { prop, scenario: scenario.clone(), history: hist.clone(), what }) } else if props.iter().any(|p| CORRUPTING.contains(p)) { std::panic::panic_any(AbortHistory) } };
        // build
        type BoxS = Pin<Box<dyn Stream<Item = Result<usize, usize>>>>;
        let called = Rc::new(Cell::new(0usize));
        let (mut s, ust): (BoxS, Rc<UpSt>) = match which {
            0 => {
                let (u, st) = upstream(&script, Box::new(move |id, c| { init(id, &c); Fut::new(id, c) }));
                (Box::pin(MapOk(u.buffered_unordered(n))), st)
            }
            1 => {
                let (u, st) = upstream(&script, Box::new(move |id, c| { init(id, &c); Fut::new(id, c) }));
                (Box::pin(MapOk(u.buffered_ordered(n))), st)
            }
            2 => {
                let (u, st) = upstream(&script, Box::new(move |id, c: St| { if c.up_err.get() { return Err(id); } init(id, &c); Ok::<TFut, usize>(TFut(Fut::new(id, c))) }));
                (Box::pin(MapTry(u.try_buffered_unordered(n))), st)
            }
            3 => {
                let (u, st) = upstream(&script, Box::new(move |id, c: St| { if c.up_err.get() { return Err(id); } init(id, &c); Ok::<TFut, usize>(TFut(Fut::new(id, c))) }));
                (Box::pin(MapTry(u.try_buffered_ordered(n))), st)
            }
            _ => {
                let (u, st) = upstream(&script, Box::new(move |id, c: St| { init(id, &c); c.err.set(false); (id, c) }));
                let called2 = called.clone();
                let f = u.for_each_concurrent(n, move |(id, c): (usize, St)| {
                    called2.set(called2.get() + 1);
                    UnitFut(Fut::new(id, c))
                });
                (Box::pin(FutStream(Some(Box::pin(f)))), st)
            }
        };
        // the upstream's own hint: exact in two of three histories, otherwise loose (still honest)
        if it % 7 == 3 {
            // an honest hint with an upper bound at the very top of the range: (0, Some(usize::MAX))
            ust.slack_lo.set(usize::MAX);
            ust.slack_hi.set(usize::MAX - 1);
            hist.push("(upstream size_hint is (0, Some(usize::MAX)))".into());
        } else if it % 3 == 1 {
            ust.slack_lo.set(it % 4);
            ust.slack_hi.set(if it % 5 == 0 { usize::MAX } else { 1 + it % 3 });
            hist.push(format!("(upstream size_hint is loose: lower bound {} below, upper bound {} the number of items it will yield)", it % 4, if it % 5 == 0 { "absent instead of".to_string() } else { format!("{} above", 1 + it % 3) }));
        }
        let mut yielded: Vec<usize> = vec![];
        let mut finished = false;
        let mut hints: Vec<(usize, usize, Option<usize>, usize)> = vec![];
        for _step in 0..(if burst { 600 } else { 40 }) {
            match rng.below(4) {
                0 => {
                    let cs = ust.children.borrow();
                    if !cs.is_empty() {
                        let i = rng.below(cs.len());
                        cs[i].ready.set(true);
                        wake_child(&cs[i]);
                        hist.push(format!("complete({i})"));
                    }
                }
                _ => {
                    let polls_before = ust.polls.get();
                    let yielded_before = yielded.len();
                    let wakes_before = tw.0.load(Ordering::SeqCst);
                    let r = s.as_mut().poll_next(&mut cx);
                    let cs = ust.children.borrow();
                    let in_flight = cs.iter().filter(|c| c.dropped.get() == 0).count();
                    let futs_pulled = cs.iter().filter(|c| !c.up_err.get()).count();
                    let futs_yielded = |y: &Vec<usize>| y.iter().filter(|i| !cs[**i].up_err.get()).count();
                    let pulled_not_yielded = futs_pulled - futs_yielded(&yielded);
                    match r {
                        Poll::Ready(Some(Ok(id))) | Poll::Ready(Some(Err(id))) => {
                            hist.push(format!("poll -> item {id}"));
                            if yielded.contains(&id) {
                                fail(&["C02","C10"], &hist, format!("item {id} yielded twice"));
                            }
                            let expected = (0..cs.len()).find(|i| !cs[*i].up_err.get() && !yielded.contains(i));
                            if ordered && !cs[id].up_err.get() && Some(id) != expected {
                                fail(&["C04"], &hist, format!("ordered adapter yielded item {id}, expected {expected:?}"));
                            }
                            yielded.push(id);
                        }
                        Poll::Ready(None) => {
                            hist.push("poll -> None".into());
                            if !ust.ended.get() || which != 4 && yielded.len() != cs.len() {
                                fail(&["C10"], &hist, format!("None although upstream ended={} and {} of {} pulled items (futures' outputs and upstream errors) were yielded", ust.ended.get(), yielded.len(), cs.len()));
                            }
                            if which == 4 && (cs.iter().any(|c| !c.done.get()) || called.get() != cs.len()) {
                                fail(&["C10"], &hist, "for_each_concurrent completed with futures unfinished / items not passed to f".into());
                            }
                            finished = true;
                        }
                        Poll::Pending => {
                            hist.push("poll -> Pending".into());
                            let undelivered = if which == 4 { in_flight } else { pulled_not_yielded };
                            let up_pending_now = ust.polls.get() > polls_before && ust.last_pending.get();
                            if !(undelivered >= n || ust.ended.get() || up_pending_now) {
                                fail(&["C09"], &hist, format!("Pending with {undelivered} < {n} items unfinished/undelivered, upstream not ended and not polled-Pending in this call"));
                            }
                            if ust.ended.get() && undelivered == 0 {
                                fail(&["C10"], &hist, "Pending although upstream is exhausted and nothing is in flight".into());
                            }
                            if tw.0.load(Ordering::SeqCst) == wakes_before {
                                let missed: Vec<usize> = cs.iter().enumerate().filter(|(_, c)| !c.up_err.get() && c.dropped.get() == 0 && !c.done.get() && (c.polls.get() == 0 || c.woken_since_poll.get())).map(|(i, _)| i).collect();
                                if !missed.is_empty() {
                                    fail(&["C01"], &hist, format!("Pending with jobs {:?} pulled/woken but not polled and the task waker not invoked", missed));
                                }
                            }
                        }
                    }
                    if in_flight > n {
                        fail(&["C09"], &hist, format!("{in_flight} unfinished futures held, limit {n}"));
                    }
                    if ordered && cs.len() - yielded_before > n {
                        // (counted at the moment before this call handed out its item, if any: that item was still held then)
                        fail(&["C16"], &hist, format!("{} upstream items (futures and upstream errors) were held pulled-but-not-yielded during this call, limit {n}", cs.len() - yielded_before));
                    }
                    if ust.polled_after_end.get() {
                        fail(&["C10"], &hist, "upstream polled again after it returned None".into());
                    }
                    if which != 4 && !finished {
                        // judged exactly, at the end of the run: against the number of items the stream really went on to yield
                        let (lo, hi) = s.size_hint();
                        hints.push((yielded.len(), lo, hi, hist.len()));
                    }
                    for (i, c) in cs.iter().enumerate() {
                        if c.polled_after_done.get() {
                            fail(&["C05"], &hist, format!("future {i} polled after completion"));
                        }
                        if c.moved.get() {
                            fail(&["C08"], &hist, format!("future {i} observed at two different addresses"));
                        }
                    }
                }
            }
            if finished {
                break;
            }
        }
        if prop == "C17" && which != 4 {
            // run the stream to its end (every job completes), then compare every recorded hint with what was really yielded after it
            let mut guard = 0;
            while !finished && guard < 4000 {
                guard += 1;
                for c in ust.children.borrow().iter() {
                    if !c.ready.get() { c.ready.set(true); wake_child(c); }
                }
                match s.as_mut().poll_next(&mut cx) {
                    Poll::Ready(Some(Ok(id))) | Poll::Ready(Some(Err(id))) => yielded.push(id),
                    Poll::Ready(None) => finished = true,
                    Poll::Pending => {}
                }
            }
            if finished {
                let total = yielded.len();
                for (y, lo, hi, hl) in &hints {
                    let rem = total - y;
                    if *lo > rem || hi.map(|h| h < rem).unwrap_or(false) {
                        hist.truncate(*hl);
                        hist.push(format!("size_hint() -> ({lo},{hi:?}); then every job completes and the stream is polled to its end: {rem} more items"));
                        fail(&["C17"], &hist, format!("size_hint ({lo},{hi:?}) does not bracket the {rem} items the stream went on to yield"));
                    }
                }
            }
        }
        drop(s);
        for (i, c) in ust.children.borrow().iter().enumerate() {
            if c.dropped.get() != 1 {
                hist.push("(drop adapter)".into());
                fail(&["C06"], &hist, format!("future {i} dropped {} times", c.dropped.get()));
            }
            if c.moved.get() {
                fail(&["C08"], &hist, format!("future {i} was polled at one address and polled again or dropped at another"));
            }
        }
        });
    }
}
struct MapOk<S>(S);
impl<S: Stream<Item = Out> + Unpin> Stream for MapOk<S> {
    type Item = Result<usize, usize>;
    fn poll_next(mut self: Pin<&mut Self>, cx: &mut Context<'_>) -> Poll<Option<Self::Item>> {
        Pin::new(&mut self.0).poll_next(cx).map(|o| o.map(|o| Ok(o.id)))
    }
    fn size_hint(&self) -> (usize, Option<usize>) {
        self.0.size_hint()
    }
}
struct MapTry<S>(S);
impl<S: Stream<Item = Result<Out, usize>> + Unpin> Stream for MapTry<S> {
    type Item = Result<usize, usize>;
    fn poll_next(mut self: Pin<&mut Self>, cx: &mut Context<'_>) -> Poll<Option<Self::Item>> {
        Pin::new(&mut self.0).poll_next(cx).map(|o| o.map(|r| r.map(|o| o.id)))
    }
    fn size_hint(&self) -> (usize, Option<usize>) {
        self.0.size_hint()
    }
}
struct UnitFut(Fut);
impl Future for UnitFut {
    type Output = ();
    fn poll(self: Pin<&mut Self>, cx: &mut Context<'_>) -> Poll<()> {
        let inner = unsafe { self.map_unchecked_mut(|s| &mut s.0) };
        inner.poll(cx).map(|_| ())
    }
}
struct FutStream(Option<Pin<Box<dyn Future<Output = ()>>>>);
impl Stream for FutStream {
    type Item = Result<usize, usize>;
    fn poll_next(mut self: Pin<&mut Self>, cx: &mut Context<'_>) -> Poll<Option<Self::Item>> {
        match self.0.as_mut() {
            Some(f) => match f.as_mut().poll(cx) {
                Poll::Ready(()) => {
                    self.0 = None;
                    Poll::Ready(None)
                }
                Poll::Pending => Poll::Pending,
            },
            None => Poll::Ready(None),
        }
    }
}

// ------------------------------------------------------------------------------------------------ join_all / try_join_all (C06 C07 C04 C18)
// ------------------------------------------------------------------------------------------------ join_all / try_join_all: special shapes (C06)
/// a future WITHOUT drop glue (a shared reference and an integer) whose output HAS drop glue
struct PFut<'a> { id: usize, st: &'a St }
impl<'a> Future for PFut<'a> {
    type Output = Out;
    fn poll(self: Pin<&mut Self>, cx: &mut Context<'_>) -> Poll<Out> {
        let st = self.st;
        st.polls.set(st.polls.get() + 1);
        if st.ready.get() { st.done.set(true); Poll::Ready(Out { id: self.id, st: st.clone() }) } else { *st.waker.borrow_mut() = Some(cx.waker().clone()); Poll::Pending }
    }
}
struct PTFut<'a>(PFut<'a>);
impl<'a> Future for PTFut<'a> {
    type Output = Result<Out, usize>;
    fn poll(mut self: Pin<&mut Self>, cx: &mut Context<'_>) -> Poll<Self::Output> {
        let err = self.0.st.err.get();
        let id = self.0.id;
        match Pin::new(&mut self.0).poll(cx) { Poll::Ready(o) => if err { Poll::Ready(Err(id)) } else { Poll::Ready(Ok(o)) }, Poll::Pending => Poll::Pending }
    }
}
fn run_join_big_and_lying(prop: &'static str) {
    let tw = Arc::new(CountWaker(AtomicUsize::new(0)));
    let waker = Waker::from(tw.clone());
    let mut cx = Context::from_waker(&waker);
    // many inputs that are all ready at the first poll (more than any per-call budget), and inputs that come from an iterator
    // with an over-reporting size hint
    for try_variant in [false, true] {
        for &(n, lie) in &[(60usize, 0usize), (61, 0), (62, 0), (63, 0), (130, 0), (3, 2), (1, 1), (5, 3)] {
            let sts: Vec<St> = (0..n).map(|_| { let s: St = Rc::new(ChildSt::default()); s.ready.set(true); s }).collect();
            let scenario = format!("{}: {n} inputs, all ready at the first poll{}", if try_variant { "try_join_all" } else { "join_all" }, if lie > 0 { format!("; they come from an iterator whose size_hint over-reports by {lie}") } else { String::new() });
            let mut polls = 0;
            let mut result: Option<Vec<Out>> = None;
            if try_variant {
                let mut j = Box::pin(try_join_all(Lying(sts.iter().enumerate().map(|(i, s)| TFut(Fut::new(i, s.clone()))).collect::<Vec<_>>().into_iter(), lie)));
                while polls < 8 && result.is_none() { polls += 1; if let Poll::Ready(r) = j.as_mut().poll(&mut cx) { match r { Ok(v) => result = Some(v), Err(_) => break } } }
            } else {
                let mut j = Box::pin(join_all(Lying(sts.iter().enumerate().map(|(i, s)| Fut::new(i, s.clone())).collect::<Vec<_>>().into_iter(), lie)));
                while polls < 8 && result.is_none() { polls += 1; if let Poll::Ready(v) = j.as_mut().poll(&mut cx) { result = Some(v); } }
            }
            let hist = vec![format!("poll x{polls}")];
            match result {
                None => report(&Fail { prop, scenario, history: hist, what: "did not resolve within 8 polls although every input is ready".into() }),
                Some(v) => {
                    // before a single element is looked at: no output may have been dropped while the caller holds the Vec, and the
                    // Vec must have one element per input
                    let dropped: Vec<usize> = sts.iter().enumerate().filter(|(_, s)| s.out_dropped.get() != 0).map(|(i, _)| i).collect();
                    let len = v.len();
                    if !dropped.is_empty() || len != n {
                        std::mem::forget(v);
                        report(&Fail { prop, scenario, history: hist, what: format!("resolved to a Vec of {len} elements for {n} inputs; the outputs of inputs {:?} were dropped before the Vec was handed out (their places hold values nobody produced)", &dropped[..dropped.len().min(6)]) });
                    }
                    let ids: Vec<usize> = v.iter().map(|o| o.id).collect();
                    if ids != (0..n).collect::<Vec<_>>() {
                        report(&Fail { prop, scenario, history: hist, what: format!("outputs are not those of inputs 0..{n} in order: {:?}", &ids[..ids.len().min(10)]) });
                    }
                }
            }
        }
    }
}
/// join_all / try_join_all cancelled: every input and every output produced so far is dropped exactly once (C06), and neither
/// the polls nor the drop allocate (C18).  Sizes around powers of two and round numbers (natural values for a yield budget).
fn run_join_cancel(prop: &'static str) {
    if prop != "C06" && prop != "C18" {
        return;
    }
    let tw = Arc::new(CountWaker(AtomicUsize::new(0)));
    let waker = Waker::from(tw.clone());
    let mut cx = Context::from_waker(&waker);
    let sizes: [usize; 22] = [3, 16, 64, 100, 127, 128, 129, 255, 256, 257, 500, 511, 512, 513, 1000, 1023, 1024, 1025, 2047, 2048, 2049, 4096];
    for try_variant in [false, true] {
        for &n in &sizes {
            for ready_every in [1usize, 2] {
                for polls in 1..=2usize {
                    if n > 600 && ready_every == 2 && polls == 2 { continue; }
                    let sts: Vec<St> = (0..n).map(|i| { let s: St = Rc::new(ChildSt::default()); s.ready.set(i % ready_every == 0); s }).collect();
                    let scenario = format!("{}: {n} inputs, every {} ready; polled {polls} time(s), then dropped", if try_variant { "try_join_all" } else { "join_all" }, if ready_every == 1 { "one".to_string() } else { "second one".to_string() });
                    let mut resolved = false;
                    let mut a = 0usize;
                    if try_variant {
                        let mut j = Box::pin(try_join_all(sts.iter().enumerate().map(|(i, s)| TFut(Fut::new(i, s.clone()))).collect::<Vec<_>>()));
                        for _ in 0..polls { let b = ALLOCS.load(Ordering::Relaxed); let r = j.as_mut().poll(&mut cx); a += ALLOCS.load(Ordering::Relaxed) - b; if let Poll::Ready(r) = r { resolved = true; drop(r); break; } }
                        let b = ALLOCS.load(Ordering::Relaxed); drop(j); a += ALLOCS.load(Ordering::Relaxed) - b;
                    } else {
                        let mut j = Box::pin(join_all(sts.iter().enumerate().map(|(i, s)| Fut::new(i, s.clone())).collect::<Vec<_>>()));
                        for _ in 0..polls { let b = ALLOCS.load(Ordering::Relaxed); let r = j.as_mut().poll(&mut cx); a += ALLOCS.load(Ordering::Relaxed) - b; if let Poll::Ready(r) = r { resolved = true; drop(r); break; } }
                        let b = ALLOCS.load(Ordering::Relaxed); drop(j); a += ALLOCS.load(Ordering::Relaxed) - b;
                    }
                    for s in &sts { s.waker.borrow_mut().take(); }
                    let hist = vec![format!("poll x{polls}{}; drop", if resolved { " (resolved)" } else { "" })];
                    if prop == "C06" {
                        let fut_bad = sts.iter().enumerate().find(|(_, s)| s.dropped.get() != 1).map(|(i, s)| (i, s.dropped.get()));
                        let out_bad = sts.iter().enumerate().find(|(_, s)| s.out_dropped.get() != s.done.get() as usize).map(|(i, s)| (i, s.out_dropped.get()));
                        if let Some((i, d)) = fut_bad {
                            report(&Fail { prop, scenario, history: hist, what: format!("input {i} was dropped {d} times") });
                        }
                        if let Some((i, d)) = out_bad {
                            let total: usize = sts.iter().filter(|s| s.done.get() && s.out_dropped.get() == 0).count();
                            report(&Fail { prop, scenario, history: hist, what: format!("the output of input {i} was dropped {d} times ({total} produced outputs were never dropped)") });
                        }
                    }
                    // a resolved join hands out its Vec (built from the buffer it allocated at construction); nothing else may allocate
                    if prop == "C18" && a > 0 {
                        report(&Fail { prop, scenario, history: hist, what: format!("{a} heap allocation(s) after construction (polls and drop)") });
                    }
                }
            }
        }
    }
}
fn run_join_special(prop: &'static str) {
    if prop == "C07" || prop == "C06" || prop == "C04" {
        run_join_big_and_lying(prop);
    }
    run_join_cancel(prop);
    if prop == "C07" {
        // the destructor of a collected Ok value panics while the error path releases the buffer; the caller catches the unwind
        // and keeps polling: whatever happens then, the combinator must not resolve to Ok (an input failed, a value is gone)
        let tw = Arc::new(CountWaker(AtomicUsize::new(0)));
        let waker = Waker::from(tw.clone());
        let mut cx = Context::from_waker(&waker);
        for n in 3..=4usize {
            for bad_drop in 0..(n - 2) {
                let sts: Vec<St> = (0..n).map(|_| Rc::new(ChildSt::default())).collect();
                for i in 0..(n - 2) { sts[i].ready.set(true); }
                sts[bad_drop].panic_on_out_drop.set(true);
                sts[n - 2].ready.set(true);
                sts[n - 2].err.set(true);
                let scenario = format!("try_join_all: {n} inputs; inputs 0..{} resolve Ok (the destructor of output {bad_drop} panics), input {} fails, the last one is pending; the caller catches the panic, the last input completes, the combinator is polled again", n - 2, n - 2);
                let mut j = Box::pin(try_join_all(sts.iter().enumerate().map(|(i, s)| TFut(Fut::new(i, s.clone()))).collect::<Vec<_>>()));
                let first = std::panic::catch_unwind(std::panic::AssertUnwindSafe(|| j.as_mut().poll(&mut cx).map(|r| r.is_ok())));
                sts[n - 1].ready.set(true);
                wake_child(&sts[n - 1]);
                let mut ok_len = None;
                for _ in 0..3 {
                    match std::panic::catch_unwind(std::panic::AssertUnwindSafe(|| j.as_mut().poll(&mut cx))) {
                        Ok(Poll::Ready(Ok(v))) => { ok_len = Some(v.len()); std::mem::forget(v); break; }
                        Ok(Poll::Ready(Err(_))) => break,
                        Ok(Poll::Pending) => {}
                        Err(_) => break,
                    }
                }
                std::mem::forget(j);
                // (an empty Vec after the error was reported is the fused answer of a finished combinator, not a value)
                if let Some(len) = ok_len.filter(|l| *l > 0) {
                    report(&Fail { prop, scenario, history: vec![format!("poll -> {}", match first { Ok(Poll::Ready(true)) => "Ok", Ok(Poll::Ready(false)) => "Err", Ok(Poll::Pending) => "Pending", Err(_) => "panic (caught)" }), "complete the last input".into(), "poll".into()],
                        what: format!("resolved to Ok(Vec of {len} elements) although input {} failed and the output of input {bad_drop} had already been destroyed", n - 2) });
                }
            }
        }
    }
    if prop == "C07" {
        // a child panics when polled; the caller catches the unwind and keeps using the combinator: it must never resolve,
        // because the panicked input produced nothing
        let tw = Arc::new(CountWaker(AtomicUsize::new(0)));
        let waker = Waker::from(tw.clone());
        let mut cx = Context::from_waker(&waker);
        for try_variant in [false, true] {
            for n in 2..=4usize {
                for bad in 0..n {
                    let sts: Vec<St> = (0..n).map(|i| { let s: St = Rc::new(ChildSt::default()); if i == bad { s.panic_on_poll.set(true); } s }).collect();
                    let scenario = format!("{}: {n} inputs, input {bad} panics when polled; the caller catches the panic, the other inputs complete, the combinator is polled again", if try_variant { "try_join_all" } else { "join_all" });
                    let mut resolved = false;
                    if try_variant {
                        let mut j = Box::pin(try_join_all(sts.iter().enumerate().map(|(i, s)| TFut(Fut::new(i, s.clone()))).collect::<Vec<_>>()));
                        let _ = std::panic::catch_unwind(std::panic::AssertUnwindSafe(|| { let _ = j.as_mut().poll(&mut cx); }));
                        for (i, s) in sts.iter().enumerate() { if i != bad { s.ready.set(true); wake_child(s); } }
                        for _ in 0..3 {
                            if let Ok(Poll::Ready(r)) = std::panic::catch_unwind(std::panic::AssertUnwindSafe(|| j.as_mut().poll(&mut cx))) { if r.is_ok() { resolved = true; } std::mem::forget(r); break; }
                        }
                        std::mem::forget(j);
                    } else {
                        let mut j = Box::pin(join_all(sts.iter().enumerate().map(|(i, s)| Fut::new(i, s.clone())).collect::<Vec<_>>()));
                        let _ = std::panic::catch_unwind(std::panic::AssertUnwindSafe(|| { let _ = j.as_mut().poll(&mut cx); }));
                        for (i, s) in sts.iter().enumerate() { if i != bad { s.ready.set(true); wake_child(s); } }
                        for _ in 0..3 {
                            if let Ok(Poll::Ready(r)) = std::panic::catch_unwind(std::panic::AssertUnwindSafe(|| j.as_mut().poll(&mut cx))) { resolved = true; std::mem::forget(r); break; }
                        }
                        std::mem::forget(j);
                    }
                    if resolved {
                        report(&Fail { prop, scenario, history: vec![format!("poll (input {bad} panics, caught)"), "complete the other inputs".into(), "poll".into()], what: format!("resolved to a Vec of {n} elements although input {bad} never produced an output") });
                    }
                }
            }
        }
        return;
    }
    if prop != "C06" {
        return;
    }
    let tw = Arc::new(CountWaker(AtomicUsize::new(0)));
    let waker = Waker::from(tw.clone());
    let mut cx = Context::from_waker(&waker);
    // (A) children without drop glue, outputs with drop glue, the combinator is cancelled after some children resolved
    for try_variant in [false, true] {
        for n in 2..=4usize {
            for ready_mask in 1..(1usize << n) - 1 {
                let sts: Vec<St> = (0..n).map(|i| { let s: St = Rc::new(ChildSt::default()); s.ready.set((ready_mask >> i) & 1 == 1); s }).collect();
                let scenario = format!("{}: {n} plain-data futures (no drop glue; their outputs have drop glue), ready mask {ready_mask:#b}", if try_variant { "try_join_all" } else { "join_all" });
                if try_variant {
                    let mut j = Box::pin(try_join_all(sts.iter().enumerate().map(|(i, s)| PTFut(PFut { id: i, st: s })).collect::<Vec<_>>()));
                    let r = j.as_mut().poll(&mut cx);
                    drop(r);
                    drop(j);
                } else {
                    let mut j = Box::pin(join_all(sts.iter().enumerate().map(|(i, s)| PFut { id: i, st: s }).collect::<Vec<_>>()));
                    let r = j.as_mut().poll(&mut cx);
                    drop(r);
                    drop(j);
                }
                for (i, s) in sts.iter().enumerate() {
                    if s.done.get() && s.out_dropped.get() != 1 {
                        report(&Fail { prop, scenario, history: vec!["poll -> Pending".into(), "(drop the combinator)".into()], what: format!("the output of input {i} was produced but dropped {} times", s.out_dropped.get()) });
                    }
                }
            }
        }
    }
    // (B) a child panics while it is polled: the unwind passes through the combinator, which is then dropped
    for try_variant in [false, true] {
        for n in 2..=4usize {
            for bad in 0..n {
                let sts: Vec<St> = (0..n).map(|i| { let s: St = Rc::new(ChildSt::default()); if i == bad { s.panic_on_poll.set(true); } else { s.ready.set(i % 2 == 0 || i + 1 == n); } s }).collect();
                let scenario = format!("{}: {n} futures, input {bad} panics when polled, the others {:?} are ready", if try_variant { "try_join_all" } else { "join_all" }, sts.iter().enumerate().filter(|(i, s)| *i != bad && s.ready.get()).map(|(i, _)| i).collect::<Vec<_>>());
                let mut hist: Vec<String> = vec![];
                let res = std::panic::catch_unwind(std::panic::AssertUnwindSafe(|| {
                    if try_variant {
                        let mut j = Box::pin(try_join_all(sts.iter().enumerate().map(|(i, s)| TFut(Fut::new(i, s.clone()))).collect::<Vec<_>>()));
                        let _ = j.as_mut().poll(&mut cx);
                        let _ = j.as_mut().poll(&mut cx);
                    } else {
                        let mut j = Box::pin(join_all(sts.iter().enumerate().map(|(i, s)| Fut::new(i, s.clone())).collect::<Vec<_>>()));
                        let _ = j.as_mut().poll(&mut cx);
                        let _ = j.as_mut().poll(&mut cx);
                    }
                }));
                hist.push(format!("poll (child {bad} panics: {}); the combinator is dropped by the unwind", if res.is_err() { "unwound" } else { "no panic reached the caller" }));
                for (i, s) in sts.iter().enumerate() {
                    if s.dropped.get() != 1 {
                        report(&Fail { prop, scenario, history: hist, what: format!("input future {i} dropped {} times", s.dropped.get()) });
                    }
                    if s.done.get() && s.out_dropped.get() != 1 {
                        report(&Fail { prop, scenario, history: hist, what: format!("the output of input {i} was produced but dropped {} times", s.out_dropped.get()) });
                    }
                }
            }
        }
    }
}

fn run_join(prop: &'static str, seed: u64, iters: usize) {
    let mut rng = Rng(seed.wrapping_mul(0xA24BAED4963EE407) | 1);
    for _ in 0..iters {
        guarded(prop, &["C07"], "run_join", 0, || {
        let n = rng.below(5);
        let try_variant = rng.below(2) == 0;
        let loose = if rng.below(3) == 0 { 1 + rng.below(3) } else { 0 };
        let scenario = format!("{}(n={n})", if try_variant { "try_join_all" } else { "join_all" });
        let tw = Arc::new(CountWaker(AtomicUsize::new(0)));
        let waker = Waker::from(tw.clone());
        let mut cx = Context::from_waker(&waker);
        let mut hist: Vec<String> = vec![];
        let fail = |props: &[&str], hist: &Vec<String>, what: String| { if props.contains(&prop) { report(&Fail { prop, scenario: scenario.clone(), history: hist.clone(), what }) } else if props.iter().any(|p| CORRUPTING.contains(p)) { std::panic::panic_any(AbortHistory) } };
        let children: Vec<St> = (0..n).map(|_| Rc::new(ChildSt::default())).collect();
        for c in &children {
            if rng.below(3) == 0 {
                c.ready.set(true);
            }
            if try_variant && rng.below(4) == 0 {
                c.err.set(true);
            }
        }
        hist.push(format!("inputs ready={:?} err={:?}", children.iter().map(|c| c.ready.get()).collect::<Vec<_>>(), children.iter().map(|c| c.err.get()).collect::<Vec<_>>()));
        enum J {
            A(Pin<Box<JoinAll<Fut>>>),
            B(Pin<Box<TryJoinAll<TFut>>>),
        }
        let mut j = if try_variant {
            J::B(Box::pin(try_join_all(Loose(children.iter().enumerate().map(|(i, c)| TFut(Fut::new(i, c.clone()))).collect::<Vec<_>>().into_iter(), loose))))
        } else {
            J::A(Box::pin(join_all(Loose(children.iter().enumerate().map(|(i, c)| Fut::new(i, c.clone())).collect::<Vec<_>>().into_iter(), loose))))
        };
        if loose > 0 { hist.push(format!("(inputs come from an iterator whose size_hint is (0, Some({})))", n + loose)); }
        let allocs0 = ALLOCS.load(Ordering::Relaxed);
        let mut results_after_ready = 0;
        for _ in 0..(3 * n + 4) {
            match rng.below(3) {
                0 => {
                    if n > 0 {
                        let i = rng.below(n);
                        children[i].ready.set(true);
                        wake_child(&children[i]);
                        hist.push(format!("complete({i})"));
                    }
                }
                _ => {
                    let a0 = ALLOCS.load(Ordering::Relaxed);
                    let raw: Poll<Result<Vec<Out>, usize>> = match &mut j {
                        J::A(f) => match f.as_mut().poll(&mut cx) { Poll::Ready(v) => Poll::Ready(Ok(v)), Poll::Pending => Poll::Pending },
                        J::B(f) => f.as_mut().poll(&mut cx),
                    };
                    let a1 = ALLOCS.load(Ordering::Relaxed);
                    let r: Poll<Result<Vec<usize>, usize>> = raw.map(|r| r.map(|v| v.iter().map(|o| o.id).collect()));
                    match r {
                        Poll::Ready(Ok(v)) => {
                            hist.push(format!("poll -> Ok({v:?})"));
                            results_after_ready += 1;
                            if results_after_ready == 1 {
                                if v != (0..n).collect::<Vec<_>>() {
                                    fail(&["C07","C04"], &hist, format!("resolved to {v:?}, expected the outputs of inputs 0..{n} in order"));
                                }
                                if children.iter().any(|c| !c.done.get()) {
                                    fail(&["C07"], &hist, "resolved before every input resolved".into());
                                }
                                if try_variant && children.iter().any(|c| c.err.get()) {
                                    fail(&["C07"], &hist, "resolved to Ok although an input failed".into());
                                }
                            } else if !v.is_empty() {
                                fail(&["C07"], &hist, format!("polled again after completion: handed out {v:?}"));
                            } else if children.iter().any(|c| !c.done.get()) {
                                fail(&["C07"], &hist, "polled again after it had resolved: answered Ok while an input is still outstanding".into());
                            }
                        }
                        Poll::Ready(Err(e)) => {
                            hist.push(format!("poll -> Err({e})"));
                            results_after_ready += 1;
                            if !(e < n && children[e].err.get() && children[e].done.get()) {
                                fail(&["C07"], &hist, format!("Err({e}) is not the error of a failed input"));
                            }
                            if results_after_ready == 1 {
                                let first = children.iter().enumerate().filter(|(_, c)| c.err.get() && c.done.get()).min_by_key(|(_, c)| c.done_seq.get()).map(|(i, _)| i);
                                if first != Some(e) {
                                    fail(&["C07"], &hist, format!("Err({e}) reported, but input {first:?} was the first input observed to fail"));
                                }
                            }
                        }
                        Poll::Pending => {
                            hist.push("poll -> Pending".into());
                            if children.iter().all(|c| c.done.get()) && results_after_ready == 0 && n > 0 {
                                // all done but still pending is only legal if not all outputs were collected yet (next poll)
                            }
                        }
                    }
                    if prop == "C18" && a1 != a0 {
                        fail(&["C18"], &hist, format!("{} heap allocation(s) during poll", a1 - a0));
                    }
                    for (i, c) in children.iter().enumerate() {
                        if c.polled_after_done.get() {
                            fail(&["C05"], &hist, format!("input {i} polled after completion"));
                        }
                        if c.done.get() && c.dropped.get() == 0 {
                            fail(&["C05"], &hist, format!("input {i} has completed but was not released by the end of the poll that observed it"));
                        }
                        if c.moved.get() {
                            fail(&["C08"], &hist, format!("input {i} observed at two different addresses"));
                        }
                    }
                }
            }
        }
        let _ = allocs0;
        drop(j);
        hist.push("drop".into());
        for (i, c) in children.iter().enumerate() {
            if c.dropped.get() != 1 {
                fail(&["C06"], &hist, format!("input future {i} dropped {} times", c.dropped.get()));
            }
            if c.moved.get() {
                fail(&["C08"], &hist, format!("future {i} was polled at one address and polled again or dropped at another"));
            }
            if c.done.get() && !c.err.get() && c.out_dropped.get() != 1 {
                fail(&["C06"], &hist, format!("output of input {i} dropped {} times", c.out_dropped.get()));
            }
        }
        });
    }
}

// ------------------------------------------------------------------------------------------------ merges (C11 C13 C05)
struct Src {
    st: Rc<SrcSt>,
}
struct SrcSt {
    id: usize,
    script: RefCell<VecDeque<Up>>,
    seq: Cell<usize>,
    ended: Cell<bool>,
    polled_after_end: Cell<bool>,
    polls: Cell<usize>,
    waker: RefCell<Option<Waker>>,
    dropped: Cell<usize>,
    always_ready: Cell<bool>,
    addr: Cell<usize>,
    moved: Cell<bool>,
    /// what the source reports as its own size_hint: 0 = the trait default (0, None), 1 = exact, 2 = (items left, None)
    hint_mode: Cell<usize>,
    /// the source ends at its next poll, whatever its script says
    end_now: Cell<bool>,
    /// pushed, or woken through its own waker, and not polled since
    fresh: Cell<bool>,
    /// the source's size_hint keeps announcing an item (a stale lower bound), also after it has ended
    stale_hint: Cell<bool>,
}
impl Unpin for Src {}
impl Drop for Src {
    fn drop(&mut self) {
        self.st.dropped.set(self.st.dropped.get() + 1);
        let a = self as *const _ as usize;
        if self.st.addr.get() != 0 && self.st.addr.get() != a {
            self.st.moved.set(true);
        }
    }
}
impl Stream for Src {
    type Item = (usize, usize);
    fn poll_next(self: Pin<&mut Self>, cx: &mut Context<'_>) -> Poll<Option<(usize, usize)>> {
        let st = &self.st;
        let a = &*self as *const _ as usize;
        if st.addr.get() == 0 { st.addr.set(a); } else if st.addr.get() != a { st.moved.set(true); }
        st.polls.set(st.polls.get() + 1);
        st.fresh.set(false);
        if st.ended.get() {
            st.polled_after_end.set(true);
            return Poll::Ready(None);
        }
        let next = if st.end_now.get() { Up::End } else if st.always_ready.get() { Up::Item } else { st.script.borrow_mut().pop_front().unwrap_or(Up::End) };
        match next {
            Up::Item | Up::ErrItem => {
                let s = st.seq.get();
                st.seq.set(s + 1);
                Poll::Ready(Some((st.id, s)))
            }
            Up::Pending => {
                *st.waker.borrow_mut() = Some(cx.waker().clone());
                Poll::Pending
            }
            Up::End => {
                st.ended.set(true);
                Poll::Ready(None)
            }
        }
    }
    fn size_hint(&self) -> (usize, Option<usize>) {
        let left = if self.st.ended.get() { 0 } else { self.st.script.borrow().iter().take_while(|u| **u != Up::End).filter(|u| **u == Up::Item || **u == Up::ErrItem).count() };
        if self.st.stale_hint.get() { return (1, None); }
        match self.st.hint_mode.get() {
            1 if !self.st.always_ready.get() => (left, Some(left)),
            2 if !self.st.always_ready.get() => (left, None),
            _ => (0, None),
        }
    }
}
fn mk_src(id: usize, rng: &mut Rng) -> (Src, Rc<SrcSt>) {
    let mut script = VecDeque::new();
    for _ in 0..rng.below(5) {
        script.push_back(if rng.below(3) == 0 { Up::Pending } else { Up::Item });
    }
    script.push_back(Up::End);
    let st = Rc::new(SrcSt { id, script: RefCell::new(script), seq: Cell::new(0), ended: Cell::new(false), polled_after_end: Cell::new(false), polls: Cell::new(0), waker: RefCell::new(None), dropped: Cell::new(0), always_ready: Cell::new(false), fresh: Cell::new(true), addr: Cell::new(0), moved: Cell::new(false), hint_mode: Cell::new(id % 3), end_now: Cell::new(false), stale_hint: Cell::new(false) });
    (Src { st: st.clone() }, st)
}
fn run_merge(prop: &'static str, seed: u64, iters: usize) {
    let mut rng = Rng(seed.wrapping_mul(0x9FB21C651E98DF25) | 1);
    // fixed C05 scenario: an ended source is released whatever its size_hint keeps saying
    if prop == "C05" {
        for unb in [false, true] {
            for stale_at in 0..3usize {
                let mut sts = vec![];
                let mut srcs = vec![];
                for i in 0..3usize {
                    let (s, st) = mk_src(i, &mut rng);
                    st.script.borrow_mut().clear();
                    for _ in 0..(i + 1) { st.script.borrow_mut().push_back(Up::Item); }
                    st.script.borrow_mut().push_back(Up::End);
                    st.stale_hint.set(i == stale_at);
                    sts.push(st);
                    srcs.push(s);
                }
                enum M4 { B(MergeBounded<Src>), U(MergeUnbounded<Src>) }
                let mut m = if unb { let mut mu = MergeUnbounded::new(); for s in srcs { mu.push(s); } M4::U(mu) } else { M4::B(srcs.into_iter().collect()) };
                let tw = Arc::new(CountWaker(AtomicUsize::new(0)));
                let waker = Waker::from(tw.clone());
                let mut cx = Context::from_waker(&waker);
                let scenario = format!("{}: 3 sources, source {stale_at} keeps reporting size_hint (1, None) after it ended; wakers of ended sources are invoked later", if unb { "MergeUnbounded" } else { "MergeBounded" });
                let mut hist = vec![];
                let mut done = false;
                for _ in 0..24 {
                    let r = match &mut m { M4::B(m) => Pin::new(m).poll_next(&mut cx), M4::U(m) => Pin::new(m).poll_next(&mut cx) };
                    hist.push(format!("poll -> {}", match &r { Poll::Ready(Some(x)) => format!("item {x:?}"), Poll::Ready(None) => "None".into(), Poll::Pending => "Pending".into() }));
                    for st in &sts {
                        if st.polled_after_end.get() {
                            report(&Fail { prop, scenario: scenario.clone(), history: hist.clone(), what: format!("source {} was polled again after it returned None", st.id) });
                        }
                        if st.ended.get() && st.dropped.get() == 0 {
                            report(&Fail { prop, scenario: scenario.clone(), history: hist.clone(), what: format!("source {} returned None but is still held when the call that saw it end has returned", st.id) });
                        }
                        if st.ended.get() {
                            if let Some(w) = st.waker.borrow().as_ref() { w.wake_by_ref(); }
                        }
                    }
                    if matches!(r, Poll::Ready(None)) { done = true; break; }
                }
                let _ = done;
            }
        }
    }
    // fixed fairness scenario (C13): an always-ready source in group 0 must not starve group 1
    {
        let mut m = MergeUnbounded::new();
        let mut sts = vec![];
        for i in 0..33 {
            let (s, st) = mk_src(i, &mut rng);
            st.script.borrow_mut().clear();
            st.script.borrow_mut().push_back(Up::Pending);
            if i == 0 || i == 32 {
                st.always_ready.set(true);
            }
            sts.push(st);
            m.push(s);
        }
        let tw = Arc::new(CountWaker(AtomicUsize::new(0)));
        let waker = Waker::from(tw.clone());
        let mut cx = Context::from_waker(&waker);
        let mut seen = false;
        for _ in 0..(33 * 3 + 10) {
            if let Poll::Ready(Some((id, _))) = Pin::new(&mut m).poll_next(&mut cx) {
                if id == 32 {
                    seen = true;
                    break;
                }
            }
        }
        if !seen && prop == "C13" {
            report(&Fail { prop, scenario: "MergeUnbounded: source 0 always ready, 1..31 pending (group 0), source 32 ready (group 1)".into(), history: vec!["109 polls".into()], what: "source 32 was never polled: a permanently ready source in an earlier group starves it".into() });
        }
    }
    // fairness scenarios (C13): one permanently ready source, one victim that becomes ready (and wakes) later; wherever the
    // two sit (same group, earlier group, later group, first/last slot) the victim's item arrives within a linear bound
    if prop == "C13" {
        for unb in [true, false] {
            for &nsrc in &[2usize, 33, 34, 63, 97, 98] {
                let spots = [0usize, 1, 31, 32, 33, 96, nsrc - 1];
                for &busy in &spots {
                    for &victim in &spots {
                        if busy >= nsrc || victim >= nsrc || busy == victim {
                            continue;
                        }
                        let mut sts = vec![];
                        let mut srcs = vec![];
                        for i in 0..nsrc {
                            let (s, st) = mk_src(i, &mut rng);
                            st.script.borrow_mut().clear();
                            for _ in 0..2000 { st.script.borrow_mut().push_back(Up::Pending); }
                            if i == busy { st.always_ready.set(true); }
                            sts.push(st);
                            srcs.push(s);
                        }
                        enum M2 { B(MergeBounded<Src>), U(MergeUnbounded<Src>) }
                        let mut m = if unb { let mut m = MergeUnbounded::new(); for s in srcs { m.push(s); } M2::U(m) } else { M2::B(srcs.into_iter().collect()) };
                        let tw = Arc::new(CountWaker(AtomicUsize::new(0)));
                        let waker = Waker::from(tw.clone());
                        let mut cx = Context::from_waker(&waker);
                        let mut poll = |m: &mut M2| match m { M2::B(m) => Pin::new(m).poll_next(&mut cx), M2::U(m) => Pin::new(m).poll_next(&mut cx) };
                        for _ in 0..(nsrc + 5) { let _ = poll(&mut m); }
                        sts[victim].script.borrow_mut().push_front(Up::Item);
                        let w = sts[victim].waker.borrow().clone();
                        if let Some(w) = w { w.wake_by_ref(); }
                        let bound = 3 * nsrc + 10;
                        let mut seen = false;
                        for _ in 0..bound {
                            if let Poll::Ready(Some((id, _))) = poll(&mut m) { if id == victim { seen = true; break; } }
                        }
                        if !seen {
                            report(&Fail { prop, scenario: format!("{}: {nsrc} sources, source {busy} permanently ready, the others pending; source {victim} gets an item and wakes after {} polls", if unb { "MergeUnbounded" } else { "MergeBounded" }, nsrc + 5),
                                history: vec![format!("poll x{}", nsrc + 5), format!("source {victim} ready + wake"), format!("poll x{bound}")],
                                what: format!("the item of woken source {victim} was not yielded within {bound} polls (polls of that source: {})", sts[victim].polls.get()) });
                        }
                    }
                }
            }
        }
    }
    for it in 0..iters {
        guarded(prop, &["C11"], "run_merge", it, || {
        let unbounded = rng.below(2) == 0;
        // every 50th history: many sources that end (or yield) in the same poll, to cross per-poll budgets
        // every 10th history: three groups' worth of sources (32 + 64 + rest), each group with one behaviour
        // (all pending / all ending at once / all ready / mixed), so that whole groups empty or block within one pass
        let grouped = it % 10 == 4;
        let nsrc = if grouped { 97 + rng.below(40) } else if it % 50 == 49 { 62 + rng.below(40) } else { 1 + rng.below(4) };
        let modes = [rng.below(4), rng.below(4), rng.below(4)];
        let scenario = format!("{}({nsrc} sources)", if unbounded { "MergeUnbounded" } else { "MergeBounded" });
        let mut hist: Vec<String> = vec![];
        let fail = |props: &[&str], hist: &Vec<String>, what: String| { if props.contains(&prop) { report(&Fail { prop, scenario: scenario.clone(), history: hist.clone(), what }) } else if props.iter().any(|p| CORRUPTING.contains(p)) { std::panic::panic_any(AbortHistory) } };
        let mut sts: Vec<Rc<SrcSt>> = vec![];
        let mut srcs = vec![];
        for i in 0..nsrc {
            let (s, st) = mk_src(i, &mut rng);
            if grouped {
                let g = if i < 32 { 0 } else if i < 96 { 1 } else { 2 };
                let mut sc = st.script.borrow_mut();
                match modes[g] {
                    0 => { sc.clear(); for _ in 0..40 { sc.push_back(Up::Pending); } sc.push_back(Up::End); }
                    1 => { sc.clear(); sc.push_back(Up::End); }
                    2 => { sc.clear(); sc.push_back(Up::Item); sc.push_back(Up::Item); sc.push_back(Up::End); }
                    _ => {}
                }
                if i == 0 { hist.push(format!("{nsrc} sources pushed one by one; sources 0..32 / 32..96 / 96.. behave as {:?} (0 = pending x40 then end, 1 = end at once, 2 = two items then end, 3 = random scripts)", modes)); }
            } else if nsrc >= 62 {
                st.script.borrow_mut().clear();
                if it % 100 == 49 && rng.below(4) == 0 { st.script.borrow_mut().push_back(Up::Item); }
                st.script.borrow_mut().push_back(Up::End);
            }
            if nsrc < 62 { hist.push(format!("source {i}: {:?}", st.script.borrow())); } else if i == 0 && !grouped { hist.push(format!("{nsrc} sources, each ending at once (one in four after a single item)")); }
            sts.push(st);
            srcs.push(s);
        }
        enum M {
            B(MergeBounded<Src>),
            U(MergeUnbounded<Src>),
        }
        // some sources of an unbounded merge are pushed later, while the merge is already being consumed (also: all of them,
        // i.e. the merge starts empty - from new() or from collect() over nothing)
        let late = if unbounded && rng.below(2) == 0 { rng.below(srcs.len() + 1) } else { 0 };
        let mut late_srcs: VecDeque<Src> = srcs.split_off(srcs.len() - late).into();
        let mut pushed = vec![true; nsrc];
        for k in (nsrc - late)..nsrc { pushed[k] = false; }
        if late > 0 { hist.push(format!("sources {}..{nsrc} are pushed later", nsrc - late)); }
        let mut m = if unbounded {
            if grouped || rng.below(2) == 0 { let mut mu = MergeUnbounded::new(); for s in srcs { mu.push(s); } M::U(mu) } else { hist.push("(built by collect())".into()); if rng.below(2) == 0 { M::U(Vague(srcs.into_iter(), 1).collect()) } else { M::U(srcs.into_iter().collect()) } }
        } else if rng.below(2) == 0 { hist.push("(built by collect() over an iterator whose size_hint is (len - 1, None))".into()); M::B(Vague(srcs.into_iter(), 1).collect()) } else { M::B(srcs.into_iter().collect()) };
        let mut wakes = vec![0usize; nsrc];
        let mut mhints: Vec<(usize, usize, Option<usize>, usize)> = vec![];
        let tw = Arc::new(CountWaker(AtomicUsize::new(0)));
        let waker = Waker::from(tw.clone());
        let mut cx = Context::from_waker(&waker);
        let mut next_seq = vec![0usize; nsrc];
        let mut done = false;
        for _ in 0..(60 + 3 * nsrc) {
            if !late_srcs.is_empty() && rng.below(4) == 0 {
                let k = nsrc - late_srcs.len();
                if let M::U(mu) = &mut m { mu.push(late_srcs.pop_front().unwrap()); }
                pushed[k] = true;
                hist.push(format!("push(source {k})"));
                continue;
            }
            if rng.below(3) == 0 && nsrc > 0 {
                let i = rng.below(nsrc);
                if let Some(w) = sts[i].waker.borrow().as_ref() {
                    w.wake_by_ref();
                    sts[i].fresh.set(true);
                    wakes[i] += 1;
                }
                hist.push(format!("wake({i})"));
                continue;
            }
            {
                // observers of the merge (C15) and its size hint (C17, judged exactly at the end of the run)
                let live = sts.iter().enumerate().filter(|(i, s)| pushed[*i] && !s.ended.get()).count();
                let (len, empty, hint) = match &m { M::B(m) => (live, live == 0, m.size_hint()), M::U(m) => (m.len(), m.is_empty(), m.size_hint()) };
                if len != live || empty != (live == 0) {
                    fail(&["C15"], &hist, format!("len()={len} is_empty()={empty} but {live} sources are held"));
                }
                mhints.push((next_seq.iter().sum::<usize>(), hint.0, hint.1, hist.len()));
            }
            let before = tw.0.load(Ordering::SeqCst);
            let r = match &mut m {
                M::B(m) => Pin::new(m).poll_next(&mut cx),
                M::U(m) => Pin::new(m).poll_next(&mut cx),
            };
            match r {
                Poll::Ready(Some((id, seq))) => {
                    hist.push(format!("poll -> item {seq} of source {id}"));
                    if seq != next_seq[id] {
                        fail(&["C11"], &hist, format!("source {id}: item {seq} yielded, expected item {} (dropped / duplicated / reordered)", next_seq[id]));
                    }
                    next_seq[id] += 1;
                }
                Poll::Ready(None) => {
                    hist.push("poll -> None".into());
                    if sts.iter().enumerate().any(|(i, s)| pushed[i] && !s.ended.get()) {
                        fail(&["C11"], &hist, "None although a source has not ended".into());
                    }
                    if !late_srcs.is_empty() {
                        continue;
                    }
                    done = true;
                    break;
                }
                Poll::Pending => {
                    hist.push("poll -> Pending".into());
                    if sts.iter().enumerate().all(|(i, s)| !pushed[i] || s.ended.get()) {
                        fail(&["C11"], &hist, "Pending although every source has ended".into());
                    }
                    if tw.0.load(Ordering::SeqCst) == before {
                        let missed: Vec<usize> = sts.iter().enumerate().filter(|(i, s)| pushed[*i] && !s.ended.get() && s.fresh.get()).map(|(i, _)| i).collect();
                        if !missed.is_empty() {
                            fail(&["C01","C11","C13"], &hist, format!("Pending with sources {:?} pushed/woken but not polled and the task waker not invoked", &missed[..missed.len().min(8)]));
                        }
                    }
                }
            }
            {
                // C12, accounted globally: a stale waker of an ended source may legitimately pay for a poll of the slot's next occupant
                let polls: usize = sts.iter().map(|s| s.polls.get()).sum();
                let paid: usize = pushed.iter().filter(|p| **p).count() + wakes.iter().sum::<usize>() + next_seq.iter().sum::<usize>();
                if polls > paid {
                    fail(&["C12"], &hist, format!("{polls} source polls, but only {paid} are paid for ({} pushes + {} waker invocations + {} items yielded)", pushed.iter().filter(|p| **p).count(), wakes.iter().sum::<usize>(), next_seq.iter().sum::<usize>()));
                }
            }
            for (i, s) in sts.iter().enumerate() {
                if s.polled_after_end.get() {
                    fail(&["C05","C11"], &hist, format!("source {i} polled again after it returned None"));
                }

                if s.moved.get() {
                    fail(&["C08"], &hist, format!("source stream {i} observed at two different addresses"));
                }
                if s.ended.get() && s.dropped.get() != 1 {
                    fail(&["C05"], &hist, format!("ended source {i} not dropped by the time its None was observed (drops={})", s.dropped.get()));
                }
                if next_seq[i] != s.seq.get() {
                    fail(&["C11"], &hist, format!("source {i} produced {} items but {} were yielded", s.seq.get(), next_seq[i]));
                }
            }
        }
        if prop == "C17" && late_srcs.is_empty() {
            // run the merge to its end (every pending source is woken until it ends), then compare every recorded hint with
            // the number of items that were really yielded after it; hints taken before a later push are not comparable
            let mut guard = 0;
            while !done && guard < 400 * (nsrc + 1) {
                guard += 1;
                for st in sts.iter() { if let Some(w) = st.waker.borrow().as_ref() { w.wake_by_ref(); } }
                match match &mut m { M::B(m) => Pin::new(m).poll_next(&mut cx), M::U(m) => Pin::new(m).poll_next(&mut cx) } {
                    Poll::Ready(Some((id, _))) => next_seq[id] += 1,
                    Poll::Ready(None) => done = true,
                    Poll::Pending => {}
                }
            }
            if done && late == 0 {
                let total: usize = next_seq.iter().sum();
                for (y, lo, hi, hl) in &mhints {
                    let rem = total - y;
                    if *lo > rem || hi.map(|h| h < rem).unwrap_or(false) {
                        hist.truncate(*hl);
                        hist.push(format!("size_hint() -> ({lo},{hi:?}); then the merge is polled to its end: {rem} more items"));
                        fail(&["C17"], &hist, format!("size_hint ({lo},{hi:?}) of the merge does not bracket the {rem} items it went on to yield"));
                    }
                }
            }
        }
        let _ = done;
        drop(m);
        drop(late_srcs);
        for (i, s) in sts.iter().enumerate() {
            if s.dropped.get() != 1 {
                fail(&["C06"], &hist, format!("source {i} dropped {} times", s.dropped.get()));
            }
        }
        });
    }
}


// ------------------------------------------------------------------------------------------------ shared waker allocation (C03, C06): sequential life cycles on the real crate
/// Child wakers cloned, invoked and dropped in different orders relative to the collection, for capacities 1..=9.  The
/// checking allocator reports a release with the wrong layout, a double release and (by the live-block count) a leak;
/// the task waker's reference count shows a leaked registration.
fn run_waker_lifecycle(prop: &'static str) {
    if prop != "C03" && prop != "C06" {
        return;
    }
    let tw = Arc::new(CountWaker(AtomicUsize::new(0)));
    for cap in 1..=9usize {
        for order in 0..6usize {
            let scenario = format!("FuturesUnorderedBounded::new({cap}), every child keeps a clone of its waker; life-cycle order #{order}");
            let mut hist: Vec<&'static str> = Vec::with_capacity(8);
            let live0 = LIVE_BLOCKS.load(Ordering::Relaxed);
            {
                let waker = Waker::from(tw.clone());
                let mut cx = Context::from_waker(&waker);
                let mut q = FuturesUnorderedBounded::new(cap);
                let sts: Vec<St> = (0..cap).map(|_| Rc::new(ChildSt::default())).collect();
                for (i, st) in sts.iter().enumerate() { let _ = q.try_push(Fut::new(i, st.clone())); }
                let _ = Pin::new(&mut q).poll_next(&mut cx);
                let mut ws: Vec<Waker> = sts.iter().filter_map(|s| s.waker.borrow_mut().take()).collect();
                hist.push("push one pending future per slot; poll; take the child wakers the futures stored");
                match order {
                    0 => { drop(q); hist.push("drop collection; wake() every waker"); for w in ws.drain(..) { w.wake(); } }
                    1 => { drop(q); hist.push("drop collection; drop every waker"); ws.clear(); }
                    2 => { for w in &ws { w.wake_by_ref(); } drop(q); hist.push("wake_by_ref all; drop collection; drop wakers"); ws.clear(); }
                    3 => {
                        if let Some(w0) = ws.first().cloned() { w0.clone().wake(); w0.wake(); }
                        let _ = Pin::new(&mut q).poll_next(&mut cx);
                        drop(q);
                        hist.push("two clones of waker 0 woken by value; poll; drop collection; drop wakers");
                        ws.clear();
                    }
                    4 => {
                        let extra = ws.last().cloned();
                        drop(q);
                        if let Some(e) = extra { e.wake_by_ref(); e.wake(); }
                        hist.push("clone last waker; drop collection; wake_by_ref + wake the clone; drop the rest");
                        ws.clear();
                    }
                    _ => {
                        for st in &sts { st.ready.set(true); }
                        for w in &ws { w.wake_by_ref(); }
                        let mut guard = 0;
                        while let Poll::Ready(Some(o)) = Pin::new(&mut q).poll_next(&mut cx) { drop(o); guard += 1; if guard > 20 { break; } }
                        let st2: St = Rc::new(ChildSt::default());
                        let _ = q.try_push(Fut::new(99, st2.clone()));
                        let _ = Pin::new(&mut q).poll_next(&mut cx);
                        drop(q);
                        hist.push("complete all, drain, reuse a slot, poll, drop collection; wake() the stale wakers");
                        for w in ws.drain(..) { w.wake(); }
                        st2.waker.borrow_mut().take();
                    }
                }
            }
            let mism = LAYOUT_MISMATCH.load(Ordering::Relaxed);
            let live1 = LIVE_BLOCKS.load(Ordering::Relaxed);
            let leaked = live1 - live0;
            let hist2: Vec<String> = hist.iter().map(|s| s.to_string()).collect();
            if mism > 0 {
                report(&Fail { prop, scenario, history: hist2, what: format!("the shared waker allocation was released wrongly: {}", mismatch_text()) });
            }
            if leaked != 0 {
                report(&Fail { prop, scenario, history: hist2, what: format!("{leaked} heap block(s) still allocated after the collection and every waker are gone (the shared waker allocation is leaked)") });
            }
            if Arc::strong_count(&tw) != 1 {
                report(&Fail { prop, scenario, history: hist2, what: format!("the task waker registered with the collection is still referenced {} time(s) after the collection and every waker are gone", Arc::strong_count(&tw) - 1) });
            }
        }
    }
}

/// C03 / C06: a child panics when polled and the caller survives the unwind: the references to the shared waker allocation
/// stay balanced (no release while the collection or a waker is alive, exactly one release at the end).
fn run_waker_panic(prop: &'static str) {
    if prop != "C03" && prop != "C06" {
        return;
    }
    QUARANTINE.store(true, Ordering::Relaxed);
    let tw = Arc::new(CountWaker(AtomicUsize::new(0)));
    for kind in 0..2usize {
        for cap in [2usize, 3, 5] {
            for keep in [false, true] {
                let scenario = format!("{}: {cap} children, the last one panics when polled (the caller catches the unwind); {}", if kind == 0 { "FuturesUnorderedBounded" } else { "FuturesUnordered" }, if keep { "the wakers of its siblings outlive the collection" } else { "no waker is retained" });
                let live0 = LIVE_BIG.load(Ordering::Relaxed);
                let mism0 = LAYOUT_MISMATCH.load(Ordering::Relaxed);
                {
                    let waker = Waker::from(tw.clone());
                    let mut cx = Context::from_waker(&waker);
                    let mut coll = if kind == 0 { Coll::Fub(FuturesUnorderedBounded::new(cap)) } else { Coll::Fu(FuturesUnordered::new()) };
                    let sts: Vec<St> = (0..cap).map(|i| { let s: St = Rc::new(ChildSt::default()); if i + 1 == cap { s.panic_on_poll.set(true); } s }).collect();
                    for (i, st) in sts.iter().enumerate() { let _ = coll.push_back(Fut::new(i, st.clone())); }
                    let _ = std::panic::catch_unwind(std::panic::AssertUnwindSafe(|| { let _ = coll.poll(&mut cx); }));
                    let mut ws: Vec<Waker> = sts.iter().filter_map(|s| s.waker.borrow_mut().take()).collect();
                    if !keep { ws.clear(); }
                    for w in &ws { w.wake_by_ref(); }
                    let _ = std::panic::catch_unwind(std::panic::AssertUnwindSafe(|| { let _ = coll.poll(&mut cx); }));
                    for s in &sts { s.waker.borrow_mut().take(); }
                    if prop == "C03" && LIVE_BIG.load(Ordering::Relaxed) - live0 < 1 {
                        QUARANTINE.store(false, Ordering::Relaxed);
                        report(&Fail { prop, scenario, history: vec!["push; poll (the last child panics, caught); take the siblings' wakers".into(), "wake them; poll (caught)".into()], what: "the shared waker allocation has been released although the collection is still alive".into() });
                    }
                    let _ = std::panic::catch_unwind(std::panic::AssertUnwindSafe(move || drop(coll)));
                    for w in &ws { w.wake_by_ref(); }
                    for w in ws.drain(..) { w.wake(); }
                }
                let hist: Vec<String> = vec!["push; poll (the last child panics, caught); take the siblings' wakers".into(), "wake them; poll (caught); drop the collection; wake_by_ref + wake the retained wakers".into()];
                if LAYOUT_MISMATCH.load(Ordering::Relaxed) > mism0 {
                    QUARANTINE.store(false, Ordering::Relaxed);
                    report(&Fail { prop, scenario, history: hist, what: format!("the shared waker allocation was released wrongly: {}", mismatch_text()) });
                }
                let leaked = LIVE_BIG.load(Ordering::Relaxed) - live0;
                if leaked != 0 {
                    QUARANTINE.store(false, Ordering::Relaxed);
                    report(&Fail { prop, scenario, history: hist, what: format!("{leaked} shared waker allocation(s) (heap blocks of alignment >= 64) still allocated after the collection and every waker are gone") });
                }
            }
        }
    }
    QUARANTINE.store(false, Ordering::Relaxed);
}

// ------------------------------------------------------------------------------------------------ C18 unbounded family: allocations do not grow with the number of children processed
/// Steady-state scenarios: the same work repeated at a constant peak population.  After a warm-up (the groups / heaps have
/// reached the size the peak needs) further cycles must not allocate at all - otherwise the allocation count grows with
/// the number of children processed instead of with the logarithm of the peak.
fn run_alloc_unbounded(prop: &'static str) {
    if prop != "C18" {
        return;
    }
    let tw = Arc::new(CountWaker(AtomicUsize::new(0)));
    let waker = Waker::from(tw.clone());
    let mut cx = Context::from_waker(&waker);
    macro_rules! measured { ($acc:ident, $e:expr) => {{ let b = ALLOCS.load(Ordering::Relaxed); let r = $e; $acc += ALLOCS.load(Ordering::Relaxed) - b; r }}; }
    // S1: FuturesUnordered, optionally with one long-lived child pushed first, cycles of push K / drain K
    for &k in &[5usize, 40, 100, 300] {
        for pinned in [false, true] {
            for start_cap in [0usize, 1, 3] {
                let mut q: FuturesUnordered<Fut> = if start_cap == 0 { FuturesUnordered::new() } else { FuturesUnordered::with_capacity(start_cap) };
                let scenario = format!("FuturesUnordered (initial capacity {start_cap}){}: 16 cycles of push {k} ready futures / poll until they are all out", if pinned { ", one never-completing future pushed first" } else { "" });
                let mut id = 0usize;
                if pinned {
                    q.push(Fut::new(id, Rc::new(ChildSt::default())));
                    id += 1;
                }
                let mut per_cycle = vec![];
                for _cycle in 0..16 {
                    let sts: Vec<St> = (0..k).map(|_| { let s: St = Rc::new(ChildSt::default()); s.ready.set(true); s }).collect();
                    let mut a = 0usize;
                    for s in &sts {
                        let f = Fut::new(id, s.clone());
                        id += 1;
                        measured!(a, q.push(f));
                    }
                    let mut got = 0;
                    let mut guard = 0;
                    while got < k && guard < 10 * k + 100 {
                        guard += 1;
                        if let Poll::Ready(Some(o)) = measured!(a, Pin::new(&mut q).poll_next(&mut cx)) {
                            got += 1;
                            drop(o);
                        }
                    }
                    per_cycle.push(a);
                }
                let late: usize = per_cycle[6..].iter().sum();
                if late > 0 {
                    report(&Fail { prop, scenario, history: vec![format!("allocations per cycle: {:?}", per_cycle)], what: format!("{late} allocations in cycles 7..16 at a constant peak of {} held futures: allocations grow with the number of children processed", k + pinned as usize) });
                }
            }
        }
    }
    // S1b: FuturesOrdered / FuturesUnordered growing one child at a time while outputs are parked behind a blocked head:
    // allocations logarithmic in the peak (doubling), not one per step
    for steps in [600usize, 3000] {
        let mut q: FuturesOrdered<Fut> = FuturesOrdered::new();
        let head: St = Rc::new(ChildSt::default());
        q.push_back(Fut::new(0, head.clone()));
        let mut a = 0usize;
        for k in 1..=steps {
            let st: St = Rc::new(ChildSt::default());
            st.ready.set(k % 2 == 0);
            let f = Fut::new(k, st);
            measured!(a, q.push_back(f));
            for _ in 0..2 { let r = measured!(a, Pin::new(&mut q).poll_next(&mut cx)); drop(r); }
        }
        let bound = 6 * (usize::BITS - steps.leading_zeros()) as usize + 16;
        if a > bound {
            report(&Fail { prop, scenario: format!("FuturesOrdered: the head never completes, {steps} futures are pushed one at a time (every second one ready, its output is parked), two polls after each push"), history: vec![format!("(push_back; poll x2) x{steps}")],
                what: format!("{a} allocations for a peak of {} held children (bound used: 6*log2(peak)+16 = {bound}): allocations are not logarithmic in the peak", steps + 1) });
        }
        head.waker.borrow_mut().take();
    }
    // S1c: batches through `Extend` at a constant peak: after the warm-up no further allocation
    for batch in [40usize, 100] {
        let mut q: FuturesOrdered<Fut> = FuturesOrdered::new();
        let mut per_cycle = vec![];
        let mut id = 0usize;
        for _cycle in 0..16 {
            let sts: Vec<St> = (0..batch).map(|_| { let s: St = Rc::new(ChildSt::default()); s.ready.set(true); s }).collect();
            let futs: Vec<Fut> = sts.iter().map(|s| { id += 1; Fut::new(id, s.clone()) }).collect();
            let it = futs.into_iter();
            let mut a = 0usize;
            measured!(a, q.extend(it));
            let mut got = 0;
            let mut guard = 0;
            while got < batch && guard < 10 * batch + 100 {
                guard += 1;
                if let Poll::Ready(Some(o)) = measured!(a, Pin::new(&mut q).poll_next(&mut cx)) { got += 1; drop(o); }
            }
            per_cycle.push(a);
        }
        let late: usize = per_cycle[6..].iter().sum();
        if late > 0 {
            report(&Fail { prop, scenario: format!("FuturesOrdered: 16 cycles of extend({batch} ready futures) / poll until they are all out (no trailing poll)"), history: vec![format!("allocations per cycle: {:?}", per_cycle)],
                what: format!("{late} allocations in cycles 7..16 at a constant peak of {batch} held futures: allocations grow with the number of children processed") });
        }
    }
    // S2: FuturesOrdered with a pending head and parked outputs; push_front + poll cycles run the index house-keeping every time
    for parked in [0usize, 2, 5] {
        let mut q: FuturesOrdered<Fut> = FuturesOrdered::new();
        let scenario = format!("FuturesOrdered: pending head, {parked} finished outputs parked behind it, 200 cycles of push_front(ready) / poll -> Ready / poll -> Pending");
        let head: St = Rc::new(ChildSt::default());
        q.push_back(Fut::new(0, head.clone()));
        for i in 0..parked {
            let s: St = Rc::new(ChildSt::default());
            s.ready.set(true);
            q.push_back(Fut::new(1 + i, s));
        }
        let _ = Pin::new(&mut q).poll_next(&mut cx);
        let mut per = vec![];
        for c in 0..200 {
            let s: St = Rc::new(ChildSt::default());
            s.ready.set(true);
            let f = Fut::new(100 + c, s);
            let mut a = 0usize;
            measured!(a, q.push_front(f));
            let r = measured!(a, Pin::new(&mut q).poll_next(&mut cx));
            drop(r);
            let r = measured!(a, Pin::new(&mut q).poll_next(&mut cx));
            drop(r);
            per.push(a);
        }
        let late: usize = per[20..].iter().sum();
        if late > 0 {
            report(&Fail { prop, scenario, history: vec![format!("allocations in the first 30 cycles: {:?}", &per[..30])], what: format!("{late} allocations in cycles 21..200 with at most {} futures held", parked + 2) });
        }
    }
    // S4: FuturesOrdered / FuturesOrderedBounded: identical bursts that complete last-to-first (outputs get parked) and are drained until None
    for bounded in [false, true] {
        let mut per = vec![];
        let mut fo: FuturesOrdered<Fut> = FuturesOrdered::new();
        let mut fob: FuturesOrderedBounded<Fut> = FuturesOrderedBounded::new(32);
        for burst in 0..24usize {
            let sts: Vec<St> = (0..32).map(|_| Rc::new(ChildSt::default())).collect();
            let mut a = 0usize;
            for (i, s) in sts.iter().enumerate() {
                let f = Fut::new(burst * 32 + i, s.clone());
                if bounded { measured!(a, { let _ = fob.try_push_back(f); }); } else { measured!(a, fo.push_back(f)); }
            }
            let r = if bounded { measured!(a, Pin::new(&mut fob).poll_next(&mut cx)) } else { measured!(a, Pin::new(&mut fo).poll_next(&mut cx)) };
            drop(r);
            for s in sts.iter().rev() {
                s.ready.set(true);
                wake_child(s);
                let r = if bounded { measured!(a, Pin::new(&mut fob).poll_next(&mut cx)) } else { measured!(a, Pin::new(&mut fo).poll_next(&mut cx)) };
                drop(r);
            }
            let mut guard = 0;
            loop {
                guard += 1;
                let r = if bounded { measured!(a, Pin::new(&mut fob).poll_next(&mut cx)) } else { measured!(a, Pin::new(&mut fo).poll_next(&mut cx)) };
                if matches!(r, Poll::Ready(None)) || guard > 200 { break; }
            }
            per.push(a);
        }
        let late: usize = per[6..].iter().sum();
        if late > 0 {
            report(&Fail { prop, scenario: format!("{}: 24 identical bursts of 32 futures that complete last-to-first (31 outputs are parked) and are drained until None", if bounded { "FuturesOrderedBounded::new(32)" } else { "FuturesOrdered" }), history: vec![format!("allocations per burst: {:?}", per)], what: format!("{late} allocations in bursts 7..24 at a constant peak of 32 held futures") });
        }
    }
    // S5: MergeUnbounded: three groups, the oldest group ends, then one source is pushed and one ends, again and again, at a constant population
    {
        let mut rng = Rng(13);
        let mut m: MergeUnbounded<Src> = MergeUnbounded::new();
        let mut live: VecDeque<Rc<SrcSt>> = VecDeque::new();
        let mut id = 0usize;
        let mut mk = |rng: &mut Rng, id: &mut usize| { let (s, st) = mk_src(*id, rng); *id += 1; st.script.borrow_mut().clear(); for _ in 0..100000 { st.script.borrow_mut().push_back(Up::Pending); } (s, st) };
        let mut a0 = 0usize;
        for _ in 0..97 { let (s, st) = mk(&mut rng, &mut id); live.push_back(st); measured!(a0, m.push(s)); }
        for _ in 0..6 { let r = measured!(a0, Pin::new(&mut m).poll_next(&mut cx)); drop(r); }
        for _ in 0..32 { let st = live.pop_front().unwrap(); st.end_now.set(true); let w = st.waker.borrow().clone(); if let Some(w) = w { w.wake_by_ref(); } }
        for _ in 0..6 { let r = measured!(a0, Pin::new(&mut m).poll_next(&mut cx)); drop(r); }
        let mut a = 0usize;
        let mut per = vec![];
        // the 64 sources of the second group stay for good; the one other source is the one that gets replaced
        let mut other = live.pop_back().unwrap();
        for _ in 0..100 {
            let (s, st) = mk(&mut rng, &mut id);
            let mut x = 0usize;
            measured!(x, m.push(s));
            for _ in 0..2 { let r = measured!(x, Pin::new(&mut m).poll_next(&mut cx)); drop(r); }
            other.end_now.set(true); let w = other.waker.borrow().clone(); if let Some(w) = w { w.wake_by_ref(); }
            other = st;
            for _ in 0..3 { let r = measured!(x, Pin::new(&mut m).poll_next(&mut cx)); drop(r); }
            a += x;
            per.push(x);
        }
        let late: usize = per[20..].iter().sum();
        let _ = a;
        if late > 0 {
            report(&Fail { prop, scenario: "MergeUnbounded: 97 pending sources (three groups), the 32 oldest end, then 100 times: push one source, the previously pushed one ends (the 64 sources of the second group stay) - at a constant population of 65..66".into(), history: vec![format!("allocations per replacement (first 40): {:?}", &per[..40])], what: format!("{late} allocations in replacements 21..100 at a constant population") });
        }
    }
    // S3b: MergeUnbounded with three groups (32 + 64 + 128): the second and the third group run dry within ONE poll call (their last
    // sources end together) while the first group is still held - the largest group must be kept all the same
    {
        let mut rng = Rng(11);
        let mut m: MergeUnbounded<Src> = MergeUnbounded::new();
        let mut id = 0usize;
        let mut per_cycle = vec![];
        for _cycle in 0..14 {
            let mut srcs = vec![];
            let mut sts = vec![];
            for _ in 0..224usize {
                let (s, st) = mk_src(id, &mut rng);
                st.script.borrow_mut().clear();
                for _ in 0..100000 { st.script.borrow_mut().push_back(Up::Pending); }
                sts.push(st);
                srcs.push(s);
                id += 1;
            }
            let mut a = 0usize;
            for s in srcs { measured!(a, m.push(s)); }
            for _ in 0..8 { let r = measured!(a, Pin::new(&mut m).poll_next(&mut cx)); drop(r); }
            // all of the second and third group but one source each end first ...
            let end = |sel: &dyn Fn(usize) -> bool| { for (j, st) in sts.iter().enumerate() { if sel(j) { st.end_now.set(true); if let Some(w) = st.waker.borrow().as_ref() { w.wake_by_ref(); } } } };
            end(&|j| j >= 32 && j != 95 && j != 223);
            for _ in 0..10 { let r = measured!(a, Pin::new(&mut m).poll_next(&mut cx)); drop(r); }
            // ... then the two stragglers end in the same call
            end(&|j| j == 95 || j == 223);
            for _ in 0..4 { let r = measured!(a, Pin::new(&mut m).poll_next(&mut cx)); drop(r); }
            // finally the first group
            end(&|j| j < 32);
            for _ in 0..6 { let r = measured!(a, Pin::new(&mut m).poll_next(&mut cx)); drop(r); }
            per_cycle.push(a);
        }
        let late: usize = per_cycle[6..].iter().sum();
        if late > 0 {
            report(&Fail { prop, scenario: "MergeUnbounded: 14 cycles of push 224 pending sources; sources 32..224 end (the last one of the second and of the third group in the same poll call), then sources 0..32".into(), history: vec![format!("allocations per cycle: {:?}", per_cycle)], what: format!("{late} allocations in cycles 7..14 at a constant peak of 224 sources") });
        }
    }
    // S3: MergeUnbounded: cycles of push K sources that yield one item and end
    for &k in &[5usize, 40, 100] {
        for pinned in [false, true] {
            let mut rng = Rng(7);
            let mut m: MergeUnbounded<Src> = MergeUnbounded::new();
            let scenario = format!("MergeUnbounded{}: 16 cycles of push {k} sources (one item each) / poll until they have all ended", if pinned { ", one never-ending pending source pushed first" } else { "" });
            let mut id = 0usize;
            let mut keep = vec![];
            if pinned {
                let (s, st) = mk_src(id, &mut rng);
                st.script.borrow_mut().clear();
                for _ in 0..100000 { st.script.borrow_mut().push_back(Up::Pending); }
                keep.push(st);
                m.push(s);
                id += 1;
            }
            let mut per_cycle = vec![];
            for _cycle in 0..16 {
                let mut srcs = vec![];
                for _ in 0..k {
                    let (s, st) = mk_src(id, &mut rng);
                    st.script.borrow_mut().clear();
                    st.script.borrow_mut().push_back(Up::Item);
                    st.script.borrow_mut().push_back(Up::End);
                    keep.push(st);
                    srcs.push(s);
                    id += 1;
                }
                let mut a = 0usize;
                for s in srcs {
                    measured!(a, m.push(s));
                }
                let mut got = 0;
                let mut guard = 0;
                while got < k && guard < 20 * k + 100 {
                    guard += 1;
                    match measured!(a, Pin::new(&mut m).poll_next(&mut cx)) {
                        Poll::Ready(Some(_)) => got += 1,
                        _ => {}
                    }
                }
                // let the ended sources be removed
                for _ in 0..(k / 30 + 3) {
                    let r = measured!(a, Pin::new(&mut m).poll_next(&mut cx));
                    drop(r);
                }
                per_cycle.push(a);
            }
            let late: usize = per_cycle[6..].iter().sum();
            if late > 0 {
                report(&Fail { prop, scenario, history: vec![format!("allocations per cycle: {:?}", per_cycle)], what: format!("{late} allocations in cycles 7..16 at a constant peak of {} sources", k + pinned as usize) });
            }
        }
    }
}

// ------------------------------------------------------------------------------------------------ C18 bounded family: no allocation after construction
fn run_alloc(prop: &'static str, seed: u64, iters: usize) {
    let mut rng = Rng(seed | 1);
    for _ in 0..iters.min(300) {
        let cap = 1 + rng.below(4);
        let mut q = FuturesUnorderedBounded::new(cap);
        let tw = Arc::new(CountWaker(AtomicUsize::new(0)));
        let waker = Waker::from(tw.clone());
        let mut cx = Context::from_waker(&waker);
        let sts: Vec<St> = (0..cap * 3).map(|_| Rc::new(ChildSt::default())).collect();
        let mut wakers: Vec<Waker> = Vec::with_capacity(64);
        let mut hist = vec![format!("FuturesUnorderedBounded::new({cap})")];
        let mut next = 0;
        let mut crate_allocs = 0usize;
        macro_rules! measured { ($e:expr) => {{ let b = ALLOCS.load(Ordering::Relaxed); let r = $e; crate_allocs += ALLOCS.load(Ordering::Relaxed) - b; r }}; }
        for _ in 0..30 {
            match rng.below(4) {
                0 => {
                    if next < sts.len() {
                        let f = Fut::new(next, sts[next].clone());
                        let r = measured!(q.try_push(f));
                        drop(r);
                        hist.push(format!("try_push({next})"));
                        next += 1;
                    }
                }
                1 => {
                    let r = measured!(Pin::new(&mut q).poll_next(&mut cx));
                    drop(r);
                    hist.push("poll".into());
                }
                2 => {
                    if next > 0 {
                        let i = rng.below(next);
                        sts[i].ready.set(true);
                        // clone + wake + drop of the slot waker must not allocate
                        let w = measured!(sts[i].waker.borrow().as_ref().cloned());
                        if let Some(w) = w {
                            if wakers.len() < 60 {
                                let w2 = measured!(w.clone());
                                wakers.push(w2);
                            }
                            measured!(w.wake());
                        }
                        hist.push(format!("complete+wake({i})"));
                    }
                }
                _ => {
                    let w = wakers.pop();
                    measured!(drop(w));
                    hist.push("drop a waker clone".into());
                }
            }
            if crate_allocs != 0 {
                report(&Fail { prop, scenario: "FuturesUnorderedBounded after construction".into(), history: hist.clone(), what: format!("{} heap allocation(s) after construction", crate_allocs) });
            }
        }
    }
    // unbounded: allocations logarithmic in the peak
    let mut q = FuturesUnordered::new();
    let tw = Arc::new(CountWaker(AtomicUsize::new(0)));
    let waker = Waker::from(tw.clone());
    let mut cx = Context::from_waker(&waker);
    let sts: Vec<St> = (0..40_000).map(|_| { let s: St = Rc::new(ChildSt::default()); s.ready.set(true); s }).collect();
    let a0 = ALLOCS.load(Ordering::Relaxed);
    let mut k = 0;
    for round in 0..200 {
        for _ in 0..200 {
            q.push(Fut::new(k, sts[k].clone()));
            k += 1;
        }
        while let Poll::Ready(Some(o)) = Pin::new(&mut q).poll_next(&mut cx) {
            drop(o);
        }
        let _ = round;
    }
    let a1 = ALLOCS.load(Ordering::Relaxed);
    if a1 - a0 > 2 * 12 {
        report(&Fail { prop, scenario: "FuturesUnordered: 200 rounds of push 200 / drain".into(), history: vec![format!("{} futures processed, peak 200", k)], what: format!("{} allocations: grows with the number of futures processed instead of log(peak)", a1 - a0) });
    }
}

// ------------------------------------------------------------------------------------------------ C10 known input
fn run_foreach_zero(prop: &'static str) {
    let (u, st) = upstream(&[Up::Item, Up::Item, Up::End], Box::new(|id, c| (id, c)));
    let calls = Rc::new(Cell::new(0));
    let c2 = calls.clone();
    let mut f = Box::pin(u.for_each_concurrent(0, move |(id, c): (usize, St)| {
        c2.set(c2.get() + 1);
        UnitFut(Fut::new(id, c))
    }));
    let tw = Arc::new(CountWaker(AtomicUsize::new(0)));
    let waker = Waker::from(tw.clone());
    let mut cx = Context::from_waker(&waker);
    let r = f.as_mut().poll(&mut cx);
    if r.is_pending() && st.polls.get() == 0 && tw.0.load(Ordering::SeqCst) == 0 {
        report(&Fail { prop, scenario: "stream::iter(2 items).for_each_concurrent(0, f)".into(), history: vec!["poll".into()], what: "Pending, upstream never polled, no waker registered or invoked: hangs forever although the docs say a limit of zero means no limit".into() });
    }
}

fn main() {
    install_panic_hook();
    let args: Vec<String> = std::env::args().collect();
    if args.len() < 2 {
        eprintln!("usage: fb-replay <Cxx> [--seed N] [--iters N] [--known]");
        std::process::exit(3);
    }
    let prop: &'static str = Box::leak(args[1].clone().into_boxed_str());
    let mut seed = 1u64;
    let mut iters = 4000usize;
    let mut known = false;
    let mut i = 2;
    while i < args.len() {
        match args[i].as_str() {
            "--seed" => {
                seed = args[i + 1].parse().unwrap_or(1);
                i += 1;
            }
            "--iters" => {
                iters = args[i + 1].parse().unwrap_or(4000);
                i += 1;
            }
            "--known" => known = true,
            _ => {}
        }
        i += 1;
    }
    match prop {
        "C01" => {
            run_budget(prop);
            run_collections(prop, seed, iters);
            run_merge(prop, seed, iters / 2);
            run_adapters(prop, seed, iters / 2);
        }
        "C08" => {
            run_address_big(prop);
            run_adapter_moved(prop);
            run_upstream_pinned(prop);
            run_collections(prop, seed, iters);
            run_join(prop, seed, iters / 2);
            run_adapters(prop, seed, iters / 2);
            run_merge(prop, seed, iters / 4);
        }
        "C12" => {
            run_budget(prop);
            run_collections(prop, seed, iters);
            run_merge(prop, seed, iters / 2);
        }
        "C14" => {
            run_push_is_silent(prop);
            run_quiescence(prop);
            run_quiescence_wrappers(prop);
            run_collections(prop, seed, iters);
        }
        "C15" => {
            run_collections(prop, seed, iters);
            run_merge(prop, seed, iters / 4);
        }
        "C02" => {
            run_budget_edge(prop);
            run_collections(prop, seed, iters);
        }
        "C05" => {
            run_budget_edge(prop);
            run_collections(prop, seed, iters);
            run_merge(prop, seed, iters / 2);
            run_adapters(prop, seed, iters / 4);
            run_join(prop, seed, iters / 4);
        }
        "C04" => {
            run_join_special(prop);
            run_collections(prop, seed, iters);
            run_adapters(prop, seed, iters / 2);
            run_join(prop, seed, iters / 2);
        }
        "C09" | "C16" => run_adapters(prop, seed, iters),
        "C17" => {
            run_adapters(prop, seed, iters);
            run_collections(prop, seed, iters / 2);
            run_merge(prop, seed, iters / 4);
        }
        "C10" => {
            if known {
                run_foreach_zero(prop);
            }
            run_adapters(prop, seed, iters);
        }
        "C03" => {
            run_waker_lifecycle(prop);
            run_waker_panic(prop);
            run_collections(prop, seed, iters / 2);
        }
        "C06" | "C07" => {
            run_waker_lifecycle(prop);
            run_waker_panic(prop);
            run_join_special(prop);
            run_join(prop, seed, iters);
            run_collections(prop, seed, iters / 4);
            run_adapters(prop, seed, iters / 4);
            run_merge(prop, seed, iters / 4);
        }
        "C11" => run_merge(prop, seed, iters),
        "C13" => {
            run_budget(prop);
            run_fairness(prop);
            run_merge(prop, seed, iters);
            run_collections(prop, seed, iters);
        }
        "C18" => {
            run_alloc_unbounded(prop);
            run_join_cancel(prop);
            run_alloc(prop, seed, iters);
            run_join(prop, seed, iters / 4);
        }
        _ => {}
    }
    println!("NOFAIL property={prop} seed={seed} iters={iters}");
}
