use futures_buffered::*;
use std::cell::Cell; use std::future::Future; use std::pin::Pin; use std::rc::Rc; use std::sync::Arc;
use std::task::{Context, Poll, Wake, Waker};
struct Noop; impl Wake for Noop { fn wake(self: Arc<Self>) {} }
struct Fl(Rc<Cell<bool>>, Option<Result<String, i32>>);
impl Future for Fl { type Output = Result<String,i32>; fn poll(mut self: Pin<&mut Self>, cx: &mut Context<'_>) -> Poll<Self::Output> { if self.0.get() { Poll::Ready(self.1.take().unwrap()) } else { cx.waker().wake_by_ref(); Poll::Pending } } }
fn main() {
    let w = Waker::from(Arc::new(Noop)); let mut cx = Context::from_waker(&w);
    let now = Rc::new(Cell::new(true)); let later = Rc::new(Cell::new(false));
    let mut j = Box::pin(try_join_all(vec![Fl(now.clone(), Some(Err(7))), Fl(later.clone(), Some(Ok("late".to_string())))]));
    let r1 = j.as_mut().poll(&mut cx);
    println!("first poll: {:?}", r1);
    later.set(true);
    let r2 = j.as_mut().poll(&mut cx);
    match r2 { Poll::Ready(Ok(v)) => { println!("second poll: Ok(len={})", v.len()); println!("elem0 len = {}", v[0].len()); } other => println!("second poll: {:?}", other) }
}
