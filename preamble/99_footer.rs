} // verus!
