// ------------------------------------------------------------------------------------------
// TRUSTED ENVIRONMENT: MaybeUninit and the allocation-related std functions the crate calls.
// MaybeUninit<T> is opaque with two ghost attributes:  is_init()  and  value().
// The `requires` of the unsafe operations are their documented safety contracts (T6).
// ------------------------------------------------------------------------------------------
use core::mem::MaybeUninit;

// (the type itself, `mem_contents()` and `MaybeUninit::uninit` are specified by vstd)
pub open spec fn mu_init<T>(m: &MaybeUninit<T>) -> bool { m.mem_contents() is Init }
pub open spec fn mu_value<T>(m: &MaybeUninit<T>) -> T { m.mem_contents().value() }

/// `MaybeUninit::write` overwrites without dropping: writing over an initialised cell leaks the old value.
pub assume_specification<'a, T>[MaybeUninit::<T>::write](m: &'a mut MaybeUninit<T>, val: T) -> (r: &'a mut T)
    requires
        //@ [c06.write_to_uninit: C06]
        !mu_init(old(m)),
    ensures mu_init(final(m)) && mu_value(final(m)) == val;

/// `assume_init_drop`: "the MaybeUninit really is in an initialized state" (else undefined behaviour).
#[verifier::allow(undeclared_external_trait)]
pub assume_specification<T: core::marker::Destruct>[MaybeUninit::<T>::assume_init_drop](m: &mut MaybeUninit<T>)
    requires
        //@ [c07.drop_only_init: C06,C07]
        mu_init(old(m)),
    ensures !mu_init(final(m));

/// T6: `Box::from_raw(Box::into_raw(b) as *mut [T])` == Box<[MaybeUninit<T>]>::assume_init:
/// "the values really are in an initialized state".
#[verifier::external_body]
pub fn vx_box_assume_init<T>(b: Box<[MaybeUninit<T>]>) -> (r: Box<[T]>)
    requires
        //@ [c07.assume_init_pre: C07,C06]
        forall|i: int| 0 <= i < b@.len() ==> mu_init(&#[trigger] b@[i]),
    ensures r@.len() == b@.len(), forall|i: int| 0 <= i < b@.len() ==> #[trigger] r@[i] == mu_value(&b@[i]),
{ unimplemented!() }

pub assume_specification<T, A: core::alloc::Allocator>[Vec::<T, A>::into_boxed_slice](v: Vec<T, A>) -> (r: Box<[T], A>)
    requires
        //@ [c18.into_boxed_slice_may_shrink: C18]
        v@.len() == 0 || may_allocate(),
    ensures r@ == v@;

// (`<[T]>::into_vec` is specified by vstd: no allocation, same elements)

pub assume_specification<T>[core::mem::replace::<T>](dest: &mut T, src: T) -> (r: T)
    ensures r == *old(dest), *final(dest) == src;

/// the items an `IntoIterator` value will produce, in order (uninterpreted; collect/from_iter
/// contracts are stated against it)
pub uninterp spec fn iter_items<I: IntoIterator>(it: I) -> Seq<I::Item>;

pub assume_specification<T, A: core::alloc::Allocator, F: FnMut() -> T>[Vec::<T, A>::resize_with](v: &mut Vec<T, A>, new_len: usize, f: F)
    requires
        new_len <= old(v)@.len() || (forall|u: ()| #[trigger] f.requires(u)),
        //@ [c18.resize_may_allocate: C18]
        new_len <= old(v)@.len() || may_allocate(),
    ensures
        final(v)@.len() == new_len,
        forall|i: int| 0 <= i < new_len && i < old(v)@.len() ==> #[trigger] final(v)@[i] == old(v)@[i],
        forall|i: int| old(v)@.len() <= i < new_len ==> f.ensures((), #[trigger] final(v)@[i]);

pub assume_specification<T, U, F: FnOnce(T) -> U>[Poll::<T>::map](p: Poll<T>, f: F) -> (r: Poll<U>)
    requires p matches Poll::Ready(t) ==> f.requires((t,)),
    ensures
        p is Pending ==> r is Pending,
        p matches Poll::Ready(t) ==> (r matches Poll::Ready(u) && f.ensures((t,), u));

pub assume_specification<T, U, F: FnOnce(T) -> U>[Option::<T>::map_or](o: Option<T>, default: U, f: F) -> (r: U)
    requires o matches Some(t) ==> f.requires((t,)),
    ensures
        o is None ==> r == default,
        o matches Some(t) ==> f.ensures((t,), r);

pub assume_specification<T>[Poll::<T>::is_pending](p: &Poll<T>) -> (r: bool)
    ensures r == (*p is Pending);
pub assume_specification<T>[Poll::<T>::is_ready](p: &Poll<T>) -> (r: bool)
    ensures r == (*p is Ready);
