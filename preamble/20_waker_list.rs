// ------------------------------------------------------------------------------------------
// TRUSTED ENVIRONMENT: src/waker_list.rs as seen by its consumers (DESIGN 4.2).
// waker_list.rs itself (raw pointers, atomics, RawWaker vtable) is outside Verus' subset; the
// clauses below are ASSUMED here and are the ones the Kani units check on the real file.
//
// Ghost view (all uninterpreted):
//   cap()        number of slots
//   known()      slots that are certainly queued (flag set, in the ready queue).  The environment
//                (child wakers, other threads) may queue further slots at any time; nothing below
//                ever concludes that a slot is NOT queued, except `pop() == None`.
//   registered() identity of the task waker passed to the last register()
//   last_pop()   what the last pop() since the last register() observed
//   log()        every slot index ever returned by pop(), in order
// Consumer methods take `&mut self` in the stub: the real code calls them only with exclusive
// access (`&mut self` / `Pin<&mut Self>` callers), and this makes the borrow checker enforce the
// single-consumer discipline on the extracted text.
// ------------------------------------------------------------------------------------------
pub enum PopObs { Fresh, Empty, Inconsistent, Got }

#[verifier::external_body]
pub struct WakerList { _p: core::marker::PhantomData<usize> }

pub uninterp spec fn child_waker_id(lid: int, i: usize) -> int;

impl WakerList {
    pub uninterp spec fn cap(&self) -> nat;
    pub uninterp spec fn known(&self) -> Set<usize>;
    pub uninterp spec fn registered(&self) -> Option<int>;
    pub uninterp spec fn last_pop(&self) -> PopObs;
    pub uninterp spec fn log(&self) -> Seq<usize>;
    pub uninterp spec fn lid(&self) -> int;
    /// how often pop() has answered "empty" so far (never reset: C13 uses it to tell a poll that stopped because the queue
    /// ran dry from one that stopped early)
    pub uninterp spec fn empties(&self) -> nat;

    /// everything but the known-queued set is unchanged
    pub open spec fn same_but_known(&self, o: &WakerList) -> bool {
        &&& self.cap() == o.cap() && self.registered() == o.registered() && self.last_pop() == o.last_pop()
        &&& self.log() == o.log() && self.lid() == o.lid() && self.empties() == o.empties()
    }

    #[verifier::external_body]
    pub fn new(cap: usize) -> (r: Self)
        requires may_allocate(),
        ensures r.cap() == cap, r.known() == Set::<usize>::empty(), r.registered() is None, r.log() == Seq::<usize>::empty(),
            r.last_pop() == PopObs::Fresh,
    { unimplemented!() }

    /// `unsafe fn push(&self, index)` — "Safety: index must be within capacity"
    #[verifier::external_body]
    pub fn push(&mut self, index: usize)
        //@ [env.push_index_in_capacity: C03]
        requires index < old(self).cap(),
        ensures final(self).same_but_known(old(self)), final(self).known() == old(self).known().insert(index),
    { unimplemented!() }

    #[verifier::external_body]
    pub fn register(&mut self, waker: &Waker)
        ensures final(self).cap() == old(self).cap(), final(self).known() == old(self).known(),
            final(self).registered() == Some(waker_id(waker)), final(self).last_pop() == PopObs::Fresh,
            final(self).log() == old(self).log(), final(self).lid() == old(self).lid(), final(self).empties() == old(self).empties(),
    { unimplemented!() }

    /// `unsafe fn pop(&self)` — "requires mutual exclusion (only one thread can call this)"
    #[verifier::external_body]
    pub fn pop(&mut self) -> (r: ReadySlot<(usize, ManuallyDrop<Waker>)>)
        ensures final(self).cap() == old(self).cap(), final(self).registered() == old(self).registered(), final(self).lid() == old(self).lid(),
            final(self).empties() == old(self).empties() + (if r is None { 1nat } else { 0nat }),
            match r {
                ReadySlot::Ready((i, w)) => i < old(self).cap() && final(self).known() == old(self).known().remove(i)
                    && final(self).log() == old(self).log().push(i) && final(self).last_pop() == PopObs::Got
                    && waker_id(w.view_ref()) == child_waker_id(old(self).lid(), i),
                ReadySlot::Inconsistent => final(self).known() == old(self).known() && final(self).log() == old(self).log() && final(self).last_pop() == PopObs::Inconsistent,
                ReadySlot::None => old(self).known() == Set::<usize>::empty() && final(self).known() == old(self).known() && final(self).log() == old(self).log() && final(self).last_pop() == PopObs::Empty,
            }
    { unimplemented!() }
}
