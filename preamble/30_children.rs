// ------------------------------------------------------------------------------------------
// TRUSTED ENVIRONMENT: the children.  `Future` and `Stream` are the crate's view of
// core::future::Future / futures_core::Stream with Pin erased (T1, T11).  A child is a trait
// parameter, so every obligation below is proved for EVERY behaviour these contracts allow
// (ready at once, late, never; waking itself or not).  Ghost attributes (all uninterpreted):
//   terminated()  the future has answered Ready (polling it again is a contract violation)
//   ident()       identity of the future; out_ident(o) the identity stamped on its output
//   tag()         an ordering tag the future carries (OrderWrapper: its index); out_tag(o)
// cx_wakes counts invocations of the task waker made BY THE CRATE (task_wake); what a child does
// with the waker it is given is the child's business and is not counted.
// ------------------------------------------------------------------------------------------
pub trait Future {
    type Output;
    spec fn terminated(&self) -> bool;
    spec fn ident(&self) -> int;
    spec fn tag(&self) -> int;
    spec fn out_ident(o: &Self::Output) -> int;
    spec fn out_tag(o: &Self::Output) -> int;

    fn poll(&mut self, cx: &mut Context<'_>) -> (r: Poll<Self::Output>)
        requires
            //@ [c05.poll_pre_future: C05]
            !old(self).terminated(),
        ensures
            final(self).ident() == old(self).ident(),
            final(self).tag() == old(self).tag(),
            (r is Ready) <==> final(self).terminated(),
            r matches Poll::Ready(o) ==> Self::out_ident(&o) == old(self).ident() && Self::out_tag(&o) == old(self).tag(),
            cx_id(final(cx)) == cx_id(old(cx)),
            cx_wakes(final(cx)) == cx_wakes(old(cx)),
    ;
}

//   ended()      the stream has answered Ready(None)
//   sid()        identity of the stream; item_src(x) the identity of the stream that produced item x
//   seq()        how many items it has produced; item_seq(x) the position of x in its stream
//   remaining()  how many items it will still produce ("honest hints": size_hint brackets it)
//   polls()      how often poll_next has been called
//   polled_pending()  the last poll_next answered Pending (so the stream holds the task waker)
pub trait Stream {
    type Item;
    spec fn ended(&self) -> bool;
    spec fn sid(&self) -> int;
    spec fn seq(&self) -> nat;
    spec fn remaining(&self) -> nat;
    spec fn polls(&self) -> nat;
    spec fn polled_pending(&self) -> bool;
    spec fn item_fresh(x: &Self::Item) -> bool;
    spec fn item_src(x: &Self::Item) -> int;
    spec fn item_seq(x: &Self::Item) -> nat;

    fn poll_next(&mut self, cx: &mut Context<'_>) -> (r: Poll<Option<Self::Item>>)
        requires
            //@ [c10.upstream_poll_pre: C05,C10]
            !old(self).ended(),
        ensures
            final(self).sid() == old(self).sid(),
            (r matches Poll::Ready(None)) <==> final(self).ended(),
            r matches Poll::Ready(Some(x)) ==> final(self).seq() == old(self).seq() + 1 && final(self).remaining() + 1 == old(self).remaining()
                && Self::item_src(&x) == old(self).sid() && Self::item_seq(&x) == old(self).seq() && Self::item_fresh(&x),
            !(r matches Poll::Ready(Some(_))) ==> final(self).seq() == old(self).seq() && final(self).remaining() == old(self).remaining(),
            r matches Poll::Ready(None) ==> old(self).remaining() == 0,
            final(self).polls() == old(self).polls() + 1,
            final(self).polled_pending() == (r is Pending),
            cx_id(final(cx)) == cx_id(old(cx)),
            cx_wakes(final(cx)) == cx_wakes(old(cx)),
    ;

    fn size_hint(&self) -> (r: (usize, Option<usize>))
        ensures
            r.0 <= self.remaining(),
            r.1 matches Some(hi) ==> self.remaining() <= hi,
    ;
}

/// ASSUMED (environment): a future that upstream has just produced has not completed yet.
/// `item_fresh` is uninterpreted and only ever established by `Stream::poll_next`.
#[verifier::external_body]
pub proof fn axiom_fresh_item_not_terminated<S: Stream>(x: S::Item) where S::Item: Future
    requires S::item_fresh(&x)
    ensures !x.terminated()
{ }

/// T2: `this.stream.as_mut().set(None)` — the adapters drop their upstream in place.  The assignment itself is
/// kept (and verified); its precondition states the fusing discipline: upstream is dropped only after it ended.
pub fn vx_end_stream<S: Stream>(o: &mut Option<S>)
    requires
        //@ [c10.upstream_dropped_only_when_ended: C10,C09]
        *old(o) matches Some(s) ==> s.ended(),
    ensures *final(o) is None,
{
    *o = None;
}
