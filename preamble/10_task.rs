// ------------------------------------------------------------------------------------------
// TRUSTED ENVIRONMENT: core::task types.  Poll is transparent; Context / Waker are opaque and
// observed only through uninterpreted ghost functions:
//   cx_id(cx)    identity of the task waker carried by the context
//   cx_wakes(cx) how many times that task waker has been invoked through this context
// ------------------------------------------------------------------------------------------
#[verifier::external_type_specification]
#[verifier::accept_recursive_types(T)]
pub struct ExPoll<T>(Poll<T>);
#[verifier::external_type_specification]
#[verifier::external_body]
pub struct ExContext<'a>(Context<'a>);
#[verifier::external_type_specification]
#[verifier::external_body]
pub struct ExWaker(Waker);

pub uninterp spec fn cx_id(cx: &Context<'_>) -> int;
pub uninterp spec fn cx_wakes(cx: &Context<'_>) -> nat;
pub uninterp spec fn waker_id(w: &Waker) -> int;

pub assume_specification<'a>[Context::<'a>::from_waker](w: &'a Waker) -> (cx: Context<'a>)
    ensures cx_id(&cx) == waker_id(w);
pub assume_specification<'a, 'b>[Context::<'a>::waker](cx: &'b Context<'a>) -> (w: &'a Waker)
    ensures waker_id(w) == cx_id(cx);

/// T12: `cx.waker().wake_by_ref()` — the only way the crate wakes its own task.
#[verifier::external_body]
pub fn task_wake(cx: &mut Context<'_>)
    ensures cx_wakes(final(cx)) == cx_wakes(old(cx)) + 1, cx_id(final(cx)) == cx_id(old(cx))
{ cx.waker().wake_by_ref() }

/// T3: `unreachable_unchecked()` — reaching it is undefined behaviour, so it must be unreachable.
#[verifier::external_body]
pub fn unreachable_unchecked() -> !
    //@ [env.unreachable_unchecked: C02,C15]
    requires false
{ loop {} }

/// T3: `unreachable!()`
#[verifier::external_body]
pub fn vx_unreachable() -> !
    requires false
{ loop {} }

/// T3: `panic!(..)` — diverges.  A documented panic is allowed only where the caller's contract allows
/// it: public `push*` take `requires not-full || panic_allowed()`; the crate's own call sites never
/// have `panic_allowed()`, so reaching a panic from them is a failed obligation.
pub uninterp spec fn panic_allowed() -> bool;
#[verifier::external_body]
pub fn vx_panic() -> !
    //@ [env.no_internal_panic: C09,C15,C16]
    requires panic_allowed()
{ loop {} }

pub assume_specification<T>[core::convert::identity::<T>](x: T) -> (r: T)
    ensures r == x;
