// ------------------------------------------------------------------------------------------
// TRUSTED ENVIRONMENT for the ordered collections: core::num::Wrapping (transparent),
// alloc::collections::BinaryHeap / PeekMut (opaque; abstract view = the Seq of entries, in no
// particular order).  The heap is only ever instantiated with OrderWrapper<_>, whose `Ord`
// compares indices backwards (verified below as OrderWrapper::cmp), so the max-heap's top is an
// entry of LEAST index; that link between `Ord::cmp` and the heap order is assumed here.
// ------------------------------------------------------------------------------------------
use core::num::Wrapping;
use core::cmp::Ordering;
#[verifier::external_type_specification]
pub struct ExWrapping<T>(Wrapping<T>);

#[verifier::external_body]
#[verifier::accept_recursive_types(T)]
pub struct BinaryHeap<T> { _p: core::marker::PhantomData<T> }

/// `PeekMut` is modelled as a handle that really holds the `&mut` to its heap, so that dropping it
/// without `PeekMut::pop` provably leaves the heap unchanged.
pub struct PeekMut<'a, T> { pub heap: &'a mut BinaryHeap<T> }

/// position p designates an entry of least index
pub open spec fn min_pos<T>(s: Seq<OrderWrapper<T>>, p: int) -> bool {
    0 <= p < s.len() && forall|k: int| 0 <= k < s.len() ==> s[p].index <= (#[trigger] s[k]).index
}

impl<T> BinaryHeap<OrderWrapper<T>> {
    pub uninterp spec fn view(&self) -> Seq<OrderWrapper<T>>;

    #[verifier::external_body]
    pub fn new() -> (r: Self)
        ensures r@.len() == 0,
    { unimplemented!() }

    #[verifier::external_body]
    pub fn with_capacity(capacity: usize) -> (r: Self)
        requires
            //@ [c18.heap_with_capacity: C18]
            capacity == 0 || may_allocate(),
        ensures r@.len() == 0,
    { unimplemented!() }

    #[verifier::external_body]
    pub fn len(&self) -> (r: usize)
        ensures r == self@.len(),
    { unimplemented!() }

    #[verifier::external_body]
    pub fn is_empty(&self) -> (r: bool)
        ensures r == (self@.len() == 0),
    { unimplemented!() }

    #[verifier::external_body]
    pub fn peek_mut(&mut self) -> (r: Option<PeekMut<'_, OrderWrapper<T>>>)
        ensures
            r is None <==> old(self)@.len() == 0,
            r is None ==> final(self)@ == old(self)@,
            r matches Some(p) ==> p.heap@ == old(self)@ && final(self)@ == final(p.heap)@ && min_pos(old(self)@, p.pos()),
    { unimplemented!() }

    #[verifier::external_body]
    pub fn push(&mut self, x: OrderWrapper<T>)
        ensures final(self)@ == old(self)@.push(x)
    { unimplemented!() }
}

impl<'a, T> PeekMut<'a, OrderWrapper<T>> {
    pub uninterp spec fn pos(&self) -> int;
    #[verifier::external_body]
    pub fn pop(this: Self) -> (r: OrderWrapper<T>)
        ensures r == old(this.heap)@[this.pos()], final(this.heap)@ == old(this.heap)@.remove(this.pos())
    { unimplemented!() }
}
impl<'a, T> core::ops::Deref for PeekMut<'a, OrderWrapper<T>> {
    type Target = OrderWrapper<T>;
    #[verifier::external_body]
    fn deref(&self) -> (r: &OrderWrapper<T>)
        ensures *r == old(self.heap)@[self.pos()]
    { unimplemented!() }
}
