use vstd::prelude::*;
use core::task::{Poll, Context, Waker};
use core::mem::ManuallyDrop;
use vstd::std_specs::manually_drop::ManuallyDropAdditionalFns;
use vstd::std_specs::maybe_uninit::MaybeUninitAdditionalSpecFns;
use vstd::raw_ptr::MemContents;
verus! {
// machine arithmetic: usize is the 64-bit type of the platform the crate is tested on
global size_of usize == 8;

// reachability probes (only referenced in --probes builds)
pub uninterp spec fn vx_probe(k: int) -> bool;
