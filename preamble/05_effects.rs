// ------------------------------------------------------------------------------------------
// C18 effect encoding: every allocating environment function requires `may_allocate()`.
// A function of the crate that must not allocate simply does not get this precondition, so
// reaching an allocating callee from it is an unprovable precondition.
// ------------------------------------------------------------------------------------------
pub uninterp spec fn may_allocate() -> bool;
