"""Thorough tier extras (DESIGN.md 3.4 / 3.5): solver stability (3 z3 seeds, half rlimit), a longer bounded
search with the replay driver (supplementary, never deciding), and the seeded-change corpus on scratch copies."""
import json, os, shutil, subprocess, tempfile, time, glob
import vx


def run(pid, bdir, seed, plan):
    out = {"summary": {}}
    path = os.path.join(bdir, "fb_verif.rs")
    mp = json.load(open(os.path.join(bdir, "fb_verif.map.json")))
    fn_props = {f["fn"].split(" for ")[-1]: f for f in mp["functions"]}
    # ---- stability: 3 derived seeds + half rlimit
    flips = []
    base = None
    runs = []
    for k, (sd, rl) in enumerate([(seed * 3 + 11, None), (seed * 5 + 101, None), (seed * 7 + 1009, None), (seed + 1, 5)]):
        res = vx.run_verus(path, seed=sd, rlimit=rl, threads=12)
        ok = {}
        if res["json"]:
            for m in res["json"].get("times-ms", {}).get("smt", {}).get("smt-run-module-times", []):
                for u in m.get("function-breakdown", []):
                    ok[u["function"]] = bool(u["success"])
        runs.append({"seed": sd, "rlimit": rl or 10, "failed_units": sorted(k for k, v in ok.items() if not v), "wall_s": round(res["wall"], 1)})
        if base is None:
            base = ok
        else:
            for fn, v in ok.items():
                if base.get(fn) != v:
                    flips.append(fn)
    out["summary"]["stability_runs"] = runs
    out["unstable"] = sorted(set(flips))
    # ---- longer bounded search on the real crate (supplementary)
    try:
        import replaydriver
        found, cmd = replaydriver.run(pid, seed or 1, 40000, timeout=600)
        out["summary"]["replay_search"] = {"cmd": cmd, "iters": 40000, "failing_history": found}
    except Exception as e:
        out["summary"]["replay_search"] = {"error": str(e)}
    # ---- seeded-change corpus for this property, on scratch copies outside /repo and /verif
    kills = []
    for meta_path in sorted(glob.glob(os.path.join(vx.VERIF, "seeded", "*", "meta.json"))):
        meta = json.load(open(meta_path))
        if meta.get("property") != pid:
            continue
        sdir = os.path.dirname(meta_path)
        tmp = tempfile.mkdtemp(prefix="vx-seed-")
        try:
            for item in ("src", "Cargo.toml", "Cargo.lock", "tests", "benches"):
                s = os.path.join(vx.REPO, item)
                if os.path.isdir(s):
                    shutil.copytree(s, os.path.join(tmp, item))
                elif os.path.exists(s):
                    shutil.copy(s, os.path.join(tmp, item))
            r = subprocess.run(["git", "apply", "--unsafe-paths", "--directory", tmp, os.path.join(sdir, "patch.diff")], cwd="/", stdout=subprocess.PIPE, stderr=subprocess.PIPE, text=True)
            if r.returncode != 0:
                r = subprocess.run(["patch", "-p1", "-d", tmp, "-i", os.path.join(sdir, "patch.diff")], stdout=subprocess.PIPE, stderr=subprocess.PIPE, text=True)
            if r.returncode != 0:
                kills.append({"seeded": os.path.basename(sdir), "result": "patch does not apply to the current tree (skipped)"})
                continue
            env = dict(os.environ, VERIF_REPO=tmp, VERIF_NO_EVIDENCE="1", VERIF_NO_PROBES="1", VERIF_TIER="quick")
            r = subprocess.run([os.path.join(vx.VERIF, "bin", "check"), pid], env=env, stdout=subprocess.PIPE, stderr=subprocess.PIPE, text=True)
            lines = [l for l in r.stdout.splitlines() if l.startswith(("VIOLATION", "UNDECIDED", "OK"))]
            kills.append({"seeded": os.path.basename(sdir), "exit": r.returncode, "output": lines[:4]})
        finally:
            shutil.rmtree(tmp, ignore_errors=True)
    out["summary"]["seeded_changes"] = kills
    return out
