"""Syntactic frame conditions (DESIGN.md 5).  Facts come from `vx-extract --facts` (syn AST of /repo/src);
expectations from contracts/frames.json."""
import json, os, subprocess
import vx

def facts(bdir):
    exe = vx.ensure_extractor()
    out = os.path.join(bdir, "facts.json")
    r = vx.sh([exe, "--repo", vx.REPO, "--verif", vx.VERIF, "--facts", out])
    if r.returncode != 0:
        return None, r.stderr.strip()
    return json.load(open(out)), None

def run(pid, names):
    bdir = os.path.join(vx.VERIF, "build", pid)
    os.makedirs(bdir, exist_ok=True)
    f, err = facts(bdir)
    base = json.load(open(os.path.join(vx.VERIF, "contracts", "frames.json")))
    rows = []
    if f is None:
        return {"rows": [{"name": n, "ok": False, "undecided": "fact extraction failed: " + str(err), "detail": ""} for n in names]}
    for n in names:
        rows.append(globals()["frame_" + n.replace(".", "_")](f, base))
    return {"rows": rows}

def row(name, ok, detail, where=None, undecided=None):
    r = {"name": name, "ok": ok, "detail": detail}
    if where: r["where"] = where
    if undecided: r["undecided"] = undecided
    return r

def frame_c06_unsafe_frame(f, base):
    exp = base["c06_unsafe"]
    unknown = []
    for u in f["unsafe_sites"]:
        k = "%s:%s" % (u["file"], u["fn"])
        if k not in exp or u["kind"] not in exp[k]["kinds"]:
            unknown.append("%s:%d %s in %s" % (u["file"], u["line"], u["kind"], u["fn"]))
    if unknown:
        return row("c06.unsafe_frame", False, "ownership-suspending site(s) outside every contract: " + "; ".join(unknown[:6]),
                   where=unknown[0].split(" ")[0], undecided="unclassified unsafe site(s): " + "; ".join(unknown[:6]))
    return row("c06.unsafe_frame", True, "%d unsafe / ManuallyDrop / MaybeUninit / raw-pointer sites, all inside the enumerated functions and covered by a labelled clause" % len(f["unsafe_sites"]))

def frame_c06_drop_impl_present(f, base):
    missing = []
    for s in f["structs"]:
        if any("MaybeUninit" in fl["type"] for fl in s["fields"]):
            if not any(i["type"] == s["name"] and i["trait"] == "Drop" for i in f["impls"]):
                missing.append("%s (%s)" % (s["name"], s["file"]))
    if missing:
        return row("c06.drop_impl_present", False, "struct with a MaybeUninit buffer has no Drop impl, written outputs leak on cancellation: " + ", ".join(missing), where=missing[0])
    return row("c06.drop_impl_present", True, "every struct holding MaybeUninit cells implements Drop")

def frame_c08_slots_never_reassigned(f, base):
    bad = ["%s:%d %s in %s" % (w["file"], w["line"], w["what"], w["fn"]) for w in f["slots_writes"]]
    ty = [fl["type"] for s in f["structs"] if s["name"] == "PinSlotMap" for fl in s["fields"] if fl["name"] == "slots"]
    if bad:
        return row("c08.slots_never_reassigned", False, "the pinned slot buffer is replaced/swapped: " + "; ".join(bad), where=bad[0].split(" ")[0])
    if ty != [base["c08_slots_type"]]:
        return row("c08.slots_never_reassigned", False, "slot buffer type changed: %s" % ty, undecided="PinSlotMap.slots is no longer %s (got %s): the address-stability argument must be re-reviewed" % (base["c08_slots_type"], ty))
    return row("c08.slots_never_reassigned", True, "PinSlotMap.slots: %s, assigned only by struct construction; never passed to mem::swap/replace/take" % ty[0])

C08_MOVERS = {"replace", "take", "swap", "read", "read_unaligned", "read_volatile", "into_inner", "into_inner_unchecked", "copy", "copy_nonoverlapping",
              "transmute", "transmute_copy", "drain", "swap_remove", "into_vec", "to_vec", "split_off", "swap_with_slice", "rotate_left",
              "rotate_right", "reverse", "sort", "sort_by", "sort_unstable", "retain", "retain_mut", "extend_from_slice", "clone_from_slice", "copy_from_slice", "copy_within"}

def frame_c08_slot_map_moves(f, base):
    """slot_map.rs owns the pinned storage; the other modules only ever obtain Pin<&mut F> from it (getting a plain
    &mut needs `unsafe`, which c06.unsafe_frame enumerates).  So a by-value move of a held child can only be written
    inside slot_map.rs: none of its functions may call a function that moves/copies values out of or between places."""
    allowed = base.get("c08_slot_map_movers", {})
    bad = []
    for fn, cs in sorted(f["calls"].items()):
        if not fn.startswith("src/slot_map.rs:"):
            continue
        for c in cs:
            last = c.split("::")[-1].lstrip(".")
            if last in C08_MOVERS and c not in allowed.get(fn, []):
                bad.append("%s calls %s" % (fn, c))
    if bad:
        return row("c08.slot_map_moves", False, "a function of the pinned slot map moves slot contents by value: " + "; ".join(bad[:5]), where=bad[0].split(" ")[0])
    n = sum(1 for fn in f["calls"] if fn.startswith("src/slot_map.rs:"))
    return row("c08.slot_map_moves", True, "%d functions of src/slot_map.rs, none calls mem::replace/take/swap, ptr::read/copy, drain, swap_remove, into_vec, ... (vacating a slot is the in-place assignment `*slot = Slot::NextFree(..)` through Pin::set)" % n)

ORD_RANK = {"Relaxed": 0, "Acquire": 1, "Release": 1, "AcqRel": 2, "SeqCst": 3}

def frame_c03_atomic_orderings(f, base):
    """Memory orderings are outside what Verus / Kani decide here (DESIGN 7).  What CAN be held fixed is the frame: the
    atomic accesses that the release protocol of the shared allocation consists of (reference count increments /
    decrements and the fence before the release) are the reviewed ones, with orderings at least as strong.  A weakened
    ordering, a removed fence/access, or a new Relaxed access to the reference count is reported."""
    exp = [tuple(x[:3]) + (tuple(x[3]),) for x in base["c03_atomic_sites"]]
    cur = [(a["fn"], a["op"], a["receiver"], tuple(a["orderings"])) for a in f.get("atomic_sites", [])]
    bad, new = [], []
    remaining = list(cur)
    for e in exp:
        same = [c for c in remaining if c[:3] == e[:3]]
        if not same:
            bad.append("%s: %s(%s) on `%s` is gone" % (e[0], e[1], ",".join(e[3]), e[2]))
            continue
        c = same[0]
        remaining.remove(c)
        if len(c[3]) != len(e[3]) or any(ORD_RANK.get(x, 0) < ORD_RANK.get(y, 0) or (x != y and ORD_RANK.get(x) == ORD_RANK.get(y)) for x, y in zip(c[3], e[3])):
            bad.append("%s: %s on `%s` is now %s (reviewed: %s)" % (c[0], c[1], c[2], ",".join(c[3]), ",".join(e[3])))
    for c in remaining:
        if "Relaxed" in c[3]:
            bad.append("%s: new %s(%s) on `%s` - an unsynchronised access next to the release protocol" % (c[0], c[1], ",".join(c[3]), c[2]))
        else:
            new.append("%s: new %s(%s) on `%s`" % (c[0], c[1], ",".join(c[3]), c[2]))
    if bad:
        return row("c03.atomic_orderings", False, "reference-count / fence protocol of the shared waker allocation changed: " + "; ".join(bad[:5]), where=bad[0].split(":")[0])
    if new:
        return row("c03.atomic_orderings", False, "", undecided="new atomic access(es) not in the reviewed frame: " + "; ".join(new[:5]))
    return row("c03.atomic_orderings", True, "%d atomic accesses / fences, all as reviewed (%s); this is a frame, not a proof of race freedom" % (len(cur), "; ".join("%s %s %s" % (c[0].split("::")[-1], c[1], ",".join(c[3])) for c in cur)))

def frame_c12_ready_mark_sites(f, base):
    """A slot is put on the ready queue without a waker invocation only where a poll is owed: for a newly accepted child
    (try_push_with, from_iter) and for a merge source that just yielded an item (re-arm).  Any other marking site adds
    child polls that no push, wake or item pays for."""
    exp = [tuple(x) for x in base["c12_mark_sites"]]
    remaining = list(exp)
    extra = []
    for m in f.get("mark_sites", []):
        t = (m["fn"], m["callee"], m["receiver"])
        if t in remaining:
            remaining.remove(t)
        elif m["fn"].startswith("::waker/"):
            continue    # inside a RawWaker vtable function: that IS a waker invocation
        else:
            extra.append("%s:%d %s.%s in %s" % (m["file"], m["line"], m["receiver"], m["callee"], m["fn"]))
    if extra:
        return row("c12.ready_mark_sites", False, "slot(s) marked ready outside push / re-arm: " + "; ".join(extra[:5]), where=extra[0].split(" ")[0])
    return row("c12.ready_mark_sites", True, "%d ready-marking sites, all on the enumerated paths (accepting a child, re-arming a merge source, the waker itself)" % len(f.get("mark_sites", [])))

def frame_c12_no_poll_outside_loop(f, base):
    exp = [tuple(x) for x in base["c12_poll_sites"]]
    remaining = list(exp)
    extra = []
    for p in f["poll_sites"]:
        t = (p["fn"], p["callee"], p.get("receiver"))
        if t in remaining:
            remaining.remove(t)
        else:
            extra.append("%s:%d %s(%s) in %s" % (p["file"], p["line"], p["callee"], p.get("receiver"), p["fn"]))
    if extra:
        return row("c12.no_poll_outside_loop", False, "child/group poll call site outside the notification-driven paths: " + "; ".join(extra[:5]), where=extra[0].split(" ")[0])
    return row("c12.no_poll_outside_loop", True, "%d poll call sites, all on the enumerated paths (one child poll site: poll_fn in poll_inner_no_remove)" % len(f["poll_sites"]))

def frame_c14_wrappers_do_not_wake(f, base):
    extra = ["%s:%d %s.%s in %s" % (w["file"], w["line"], w["receiver"], "wake", w["fn"]) for w in f["wake_sites"] if w["fn"] not in base["c14_wake_fns"]]
    if extra:
        return row("c14.wrappers_do_not_wake", False, "the task waker is invoked outside poll_inner_no_remove: " + "; ".join(extra), where=extra[0].split(" ")[0])
    return row("c14.wrappers_do_not_wake", True, "task waker invoked at %d sites, all in %s" % (len(f["wake_sites"]), base["c14_wake_fns"]))

def frame_c17_merge_default(f, base):
    over = [i for i in f["impls"] if i["trait"] == "Stream" and i["type"] in base["c17_no_size_hint_override"] and "size_hint" in i["fns"]]
    if over:
        return row("c17.merge_default", False, "merge overrides size_hint without a contract", undecided="size_hint override of %s has no contract yet" % over[0]["type"])
    return row("c17.merge_default", True, "MergeBounded / MergeUnbounded keep the trait default size_hint (0, None), a true bound")

def frame_c18_bounded_callset(f, base):
    alloc = set(base["c18_allocating"])
    exc = base.get("c18_allowed_exceptions", {})
    bad, unknown = [], []
    # the poll functions of the unbounded family never allocate either (their only allocation is the new group made by push;
    # `.push` inside them re-appends a retained group / parks an output in a heap whose capacity was reserved)
    both = dict(base["c18_bounded_post_construction"])
    both.update(base.get("c18_unbounded_poll", {}))
    for fn, allowed in both.items():
        cur = set(f["calls"].get(fn, [])) | set("!" + m for m in f["macros"].get(fn, []))
        for c in sorted(cur - set(allowed)):
            last = c.split("::")[-1]
            if c in alloc or ("." + last) in alloc or any(c.endswith(a) for a in alloc if "::" in a):
                if c not in exc.get(fn, []):
                    bad.append("%s calls %s" % (fn, c))
            elif c in base.get("c18_maybe_allocating", []):
                # allocates for some receiver types only (a Waker / Rc / Arc clone does not): the counting allocator of the
                # bounded search decides; on its own this is no alarm
                unknown.append("%s calls %s (allocates for some receiver types only)" % (fn, c))
            else:
                unknown.append("%s calls %s" % (fn, c))
    # new functions in the bounded family files that allocate are caught when they are called from the functions above
    if bad:
        return row("c18.no_alloc_callee", False, "allocating callee reachable after construction: " + "; ".join(bad[:5]), where=bad[0].split(":")[0])
    if unknown:
        return row("c18.no_alloc_callee", False, "", undecided="callee(s) without an effect annotation: " + "; ".join(unknown[:5]))
    return row("c18.no_alloc_callee", True, "%d post-construction functions of the bounded family (incl. the waker vtable functions) call only effect-annotated non-allocating callees" % len(base["c18_bounded_post_construction"]))

def _before(seq, a, b):
    """every occurrence of a precedes the first occurrence of b (both present)"""
    if a not in seq or b not in seq:
        return None
    return max(i for i, x in enumerate(seq) if x == a) < min(i for i, x in enumerate(seq) if x == b)

ORDER_RULES = [
    # (function key, earlier call, later call, what it protects)
    ("src/waker_list.rs:::waker/wake_by_ref", ".enqueue", ".notify", "the slot is queued before the task waker is notified (else the woken task can find the queue empty and sleep again)"),
    ("src/waker_list.rs:::waker/wake_by_ref", ".lock", ".enqueue", "the queued flag is tested under the slot lock before the slot is enqueued"),
    ("src/waker_list.rs:WakerList::pop", ".try_dequeue_unchecked", "=*slot.wake_lock.lock()<-false", "the queued flag is cleared only after the slot left the queue"),
    ("src/waker_list.rs:WakerList::push", ".lock", ".enqueue", "the queued flag is tested under the slot lock before the slot is enqueued"),
    ("src/waker_list.rs:::waker/wake", "wake_by_ref", "drop_waker", "wake() notifies before it gives up its reference",
     # the same steps written out in place of the two calls are the same protocol
     [(".lock", ".enqueue"), (".enqueue", ".notify"), (".notify", ".dec_strong")]),
    ("src/futures_unordered_bounded.rs:FuturesUnorderedBounded::poll_inner_no_remove", ".register", ".pop", "the task waker is registered before the ready queue is drained"),
]

def frame_c01_protocol_order(f, base):
    bad, lost = [], []
    for rule in ORDER_RULES:
        fn, a, b, why = rule[:4]
        alt = rule[4] if len(rule) > 4 else None
        seq = f.get("call_seq", {}).get(fn)
        if seq is None:
            lost.append("%s not found" % fn)
            continue
        r = _before(seq, a, b)
        if r is None and alt and all(_before(seq, x, y) for x, y in alt):
            continue
        if r is None:
            # one of the two calls disappeared: a dropped step of the protocol
            bad.append("%s: `%s` or `%s` is missing (%s)" % (fn, a, b, why))
        elif not r:
            bad.append("%s: `%s` no longer precedes `%s` (%s)" % (fn, a, b, why))
    if lost:
        return row("c01.protocol_order", False, "", undecided="; ".join(lost))
    if bad:
        return row("c01.protocol_order", False, "wake-up protocol step order broken: " + "; ".join(bad), where=bad[0].split(":")[0])
    return row("c01.protocol_order", True, "%d statement-order conditions of the wake-up protocol hold in src/waker_list.rs / poll_inner_no_remove (syntactic order check on the AST; not a proof about interleavings)" % len(ORDER_RULES))
