"""Shared machinery of /verif/bin/check (see DESIGN.md section 3)."""
import json, os, re, subprocess, sys, time, hashlib, shutil, tempfile

VERIF = os.path.dirname(os.path.dirname(os.path.abspath(__file__)))
REPO = os.environ.get("VERIF_REPO", "/repo")
sys.path.insert(0, os.path.join(VERIF, "lib"))

VERIF_FAIL_PAT = re.compile(
    r"(postcondition not satisfied|precondition not satisfied|precondition not met|invariant not satisfied|assertion failed|"
    r"possible arithmetic (underflow|overflow)|possible (bit shift|division by zero)|fails to satisfy `callee\.requires|"
    r"decreases not satisfied|could not prove termination|unable to prove assertion|assertion not satisfied|"
    r"recursive call|cannot prove|might fail|loop invariant|possible .*out of (range|bounds))", re.I)
RLIMIT_PAT = re.compile(r"(resource limit|rlimit|timed? ?out)", re.I)
# diagnostics that mean "the generated text is outside Verus' subset / does not type-check": never a violation
UNSUPPORTED_PAT = re.compile(
    r"(not supported|unsupported|do(es)? not (yet |currently )?support|not yet (supported|implemented)|not implemented|internal error|"
    r"cannot find|mismatched types|expected .* found|unresolved|no method named|no field|cannot borrow|cannot move|borrow of moved|"
    r"is not in scope|trait bound|lifetime|cannot infer|duplicate specification|must have a decreases clause|"
    r"Could not automatically infer triggers|assume_specification|in exec mode|with mode (exec|spec|proof)|mode error|expected mode)", re.I)


def sh(cmd, **kw):
    return subprocess.run(cmd, stdout=subprocess.PIPE, stderr=subprocess.PIPE, text=True, **kw)


def ensure_extractor():
    exe = os.path.join(VERIF, "extract/target/release/vx-extract")
    src = os.path.join(VERIF, "extract/src/main.rs")
    if not os.path.exists(exe) or os.path.getmtime(exe) < os.path.getmtime(src):
        env = dict(os.environ, CARGO_NET_OFFLINE="true")
        r = sh(["cargo", "build", "--release", "--offline"], cwd=os.path.join(VERIF, "extract"), env=env)
        if r.returncode != 0:
            raise RuntimeError("cannot build vx-extract: " + r.stderr[-2000:])
    return exe


def extract(bdir, probes=False, name="fb_verif", probe_prop=None, shard=None, assume_fns=()):
    exe = ensure_extractor()
    out = os.path.join(bdir, name + ".rs")
    mp = os.path.join(bdir, name + ".map.json")
    cmd = [exe, "--repo", REPO, "--verif", VERIF, "--out", out, "--map", mp]
    for k in assume_fns:
        cmd += ["--assume-fn", k]
    if probes:
        cmd.append("--probes")
        if probe_prop:
            cmd += ["--probe-prop", probe_prop]
        if shard:
            cmd += ["--probe-shard", "%d:%d" % shard]
    r = sh(cmd)
    if r.returncode != 0:
        return None, None, r.stderr.strip()
    return out, json.load(open(mp)), None


def verus_cmd(path, seed=0, rlimit=None, multiple_errors=12, threads=8):
    cmd = ["verus", os.path.basename(path), "--triggers-mode", "silent", "--output-json", "--time",
           "--error-format=json", "--multiple-errors", str(multiple_errors), "--num-threads", str(threads)]
    if seed:
        cmd += ["--smt-option", "smt.random_seed=%d" % (seed % 100000), "--smt-option", "sat.random_seed=%d" % (seed % 100000)]
    if rlimit:
        cmd += ["--rlimit", str(rlimit)]
    return cmd


def _verus_cache_path(path, cmd):
    """Scratch runs only (VERIF_NO_EVIDENCE: seeded corpus / matrix): the 18 checks of one scratch tree generate the very
    same file, so the verifier's answer for (generated text, command line) is memoised.  Registered checks never use it."""
    if not os.environ.get("VERIF_NO_EVIDENCE"):
        return None
    import hashlib
    h = hashlib.sha256(open(path, "rb").read())
    h.update(" ".join(cmd).encode())
    d = os.path.join(VERIF, "build", "verus-cache")
    os.makedirs(d, exist_ok=True)
    return os.path.join(d, h.hexdigest()[:24] + ".json")


def start_verus(path, **kw):
    cmd = verus_cmd(path, **kw)
    cp = _verus_cache_path(path, cmd)
    if cp and os.path.exists(cp):
        try:
            return cmd, time.time(), ("cached", json.load(open(cp)))
        except ValueError:
            pass
    return cmd, time.time(), subprocess.Popen(cmd, cwd=os.path.dirname(path), stdout=subprocess.PIPE, stderr=subprocess.PIPE, text=True), cp


def finish_verus(started):
    if isinstance(started[2], tuple) and started[2][0] == "cached":
        return started[2][1]
    cmd, t0, proc, cp = started
    out, err = proc.communicate()
    wall = time.time() - t0
    try:
        js = json.loads(out)
    except Exception:
        js = None
    diags = []
    for line in err.splitlines():
        line = line.strip()
        if line.startswith("{"):
            try:
                diags.append(json.loads(line))
            except Exception:
                pass
    res = {"cmd": " ".join(cmd), "rc": proc.returncode, "json": js, "diags": diags, "wall": wall, "stderr": err}
    if cp and js is not None:
        tmp = cp + ".%d" % os.getpid()
        json.dump(res, open(tmp, "w"))
        os.replace(tmp, cp)
    return res


def run_verus(path, seed=0, rlimit=None, multiple_errors=12, threads=8):
    return finish_verus(start_verus(path, seed=seed, rlimit=rlimit, multiple_errors=multiple_errors, threads=threads))


def _old_run_verus(path, seed=0, rlimit=None, multiple_errors=12, threads=8):
    cmd = ["verus", os.path.basename(path), "--triggers-mode", "silent", "--output-json", "--time",
           "--error-format=json", "--multiple-errors", str(multiple_errors), "--num-threads", str(threads)]
    if seed:
        cmd += ["--smt-option", "smt.random_seed=%d" % (seed % 100000), "--smt-option", "sat.random_seed=%d" % (seed % 100000)]
    if rlimit:
        cmd += ["--rlimit", str(rlimit)]
    t0 = time.time()
    r = sh(cmd, cwd=os.path.dirname(path))
    wall = time.time() - t0
    try:
        js = json.loads(r.stdout)
    except Exception:
        js = None
    diags = []
    for line in r.stderr.splitlines():
        line = line.strip()
        if line.startswith("{"):
            try:
                diags.append(json.loads(line))
            except Exception:
                pass
    return {"cmd": " ".join(cmd), "rc": r.returncode, "json": js, "diags": diags, "wall": wall, "stderr": r.stderr}


class Attribution:
    def __init__(self, mp):
        self.mp = mp
        self.clauses = mp["clauses"]
        self.functions = mp["functions"]
        self.lines = mp["lines"]

    def clause_at(self, line):
        return [c for c in self.clauses if c["line_start"] <= line <= c["line_end"]]

    def fn_at(self, line):
        for f in self.functions:
            if f["line_start"] <= line <= f["line_end"]:
                return f
        return None

    def origin(self, line):
        if 1 <= line <= len(self.lines):
            return self.lines[line - 1]
        return None


def classify(diags, attr):
    """-> (failures, compile_errors, rlimit_hits).  failure = dict(message, labels[(label, props)], fn, props, where, rendered)"""
    failures, compile_errors, rl = [], [], []
    for d in diags:
        if d.get("level") != "error":
            continue
        msg = d.get("message", "")
        if msg.startswith("aborting due to"):
            continue
        if RLIMIT_PAT.search(msg):
            rl.append(d)
            continue
        if d.get("code") is not None or (UNSUPPORTED_PAT.search(msg) and not VERIF_FAIL_PAT.search(msg)):
            compile_errors.append(d)
            continue
        labels, fn, where = [], None, None
        spans = d.get("spans", [])
        for sp in spans:
            for c in attr.clause_at(sp["line_start"]):
                if (c["label"], tuple(c["props"])) not in labels:
                    labels.append((c["label"], tuple(c["props"])))
        prim = [sp for sp in spans if sp.get("is_primary")] or spans
        for sp in spans:
            f = attr.fn_at(sp["line_start"])
            if f is not None and (fn is None or sp.get("is_primary")):
                # prefer the function that contains executable code of the failure (call site / exit)
                if fn is None or not sp.get("is_primary") or True:
                    fn = f if fn is None else fn
        # the function whose body/contract failed: first span that lies inside a function range
        for sp in sorted(spans, key=lambda s: (not s.get("is_primary"), s["line_start"])):
            f = attr.fn_at(sp["line_start"])
            if f is not None:
                fn = f
                break
        for sp in prim:
            o = attr.origin(sp["line_start"])
            if o and "f" in o:
                where = "%s:%d" % (o["f"], o["l"])
        if where is None:
            for sp in spans:
                o = attr.origin(sp["line_start"])
                if o and "f" in o:
                    where = "%s:%d" % (o["f"], o["l"])
                    break
        props = set()
        kinds = {c["label"]: c.get("kind") for c in attr.clauses}
        for l, p in labels:
            if kinds.get(l) == "preamble" and fn is not None:
                # a precondition of an environment function: it speaks for the properties of the CALLING function only
                p = [x for x in p if x in fn["props"]] or list(p)
            props.update(p)
        if not labels and fn is not None:
            props.update(fn.get("primary") or fn["props"])
        failures.append({"message": msg, "labels": [l for l, _ in labels], "label_props": {l: list(p) for l, p in labels},
                         "fn": fn["fn"] if fn else None, "props": sorted(props), "where": where,
                         "rendered": d.get("rendered", ""), "unlabelled": not labels})
    # An unlabelled failure (overflow, decreases, un-named invariant) next to LABELLED failures of the same function is
    # most likely a consequence of those: it does not by itself speak for the function's primary properties.
    # (and even on its own it names no property: the functions' properties are then handled as "affected" by driver.py -
    #  violation only with a failing history on the real crate, undecided otherwise)
    for f in failures:
        if f["unlabelled"]:
            f["props"] = []
    return failures, compile_errors, rl


def assumption_scan(path):
    txt = open(path).read().splitlines()
    found = []
    pat = re.compile(r"(external_body|assume_specification|external_type_specification|\bassume\s*\(|\badmit\s*\(|verifier::external\b|uninterp spec fn)")
    for i, l in enumerate(txt):
        m = pat.search(l)
        if m and not l.strip().startswith("//"):
            # name of the item: look ahead for fn/struct name
            name = None
            for j in range(i, min(i + 6, len(txt))):
                mm = re.search(r"(?:fn|struct|enum)\s+([A-Za-z_0-9]+)|assume_specification[^\[]*\[([^\]]+)\]", txt[j])
                if mm:
                    name = mm.group(1) or mm.group(2)
                    break
            found.append((m.group(1).strip("( "), name or "?", i + 1))
    return found


def load_known():
    p = os.path.join(VERIF, "known_findings.json")
    if os.path.exists(p):
        return json.load(open(p))
    return {"findings": [], "fixed": []}


