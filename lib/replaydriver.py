"""Runs the bounded search of replay/ (fb-replay) against the real crate at /repo."""
import json, os, subprocess, shutil
import vx

RDIR = os.path.join(vx.VERIF, "replay")


def build():
    if os.path.realpath(vx.REPO) != "/repo":
        # the replay crate depends on /repo by path; a scratch tree is searched through a copy of the crate manifest
        return build_for(vx.REPO)
    env = dict(os.environ, CARGO_NET_OFFLINE="true")
    try:
        shutil.copyfile(os.path.join(vx.REPO, "Cargo.lock"), os.path.join(RDIR, "Cargo.lock"))
    except OSError:
        pass
    r = subprocess.run(["cargo", "build", "--offline"], cwd=RDIR, env=env, stdout=subprocess.PIPE, stderr=subprocess.PIPE, text=True)
    if r.returncode != 0:
        return None, r.stderr[-1500:]
    return os.path.join(RDIR, "target", "debug", "fb-replay"), None


def build_for(repo):
    import tempfile
    d = os.path.join(repo, ".vx-replay")
    os.makedirs(os.path.join(d, "src"), exist_ok=True)
    shutil.copyfile(os.path.join(RDIR, "src", "main.rs"), os.path.join(d, "src", "main.rs"))
    man = open(os.path.join(RDIR, "Cargo.toml")).read().replace('path = "/repo"', 'path = "%s"' % repo)
    open(os.path.join(d, "Cargo.toml"), "w").write(man + "\n[workspace]\n")
    try:
        shutil.copyfile(os.path.join(repo, "Cargo.lock"), os.path.join(d, "Cargo.lock"))
    except OSError:
        pass
    # a scratch tree gets its own target directory (inside the scratch tree, removed with it): several scratch trees may be
    # checked concurrently
    tdir = os.path.join(d, "target")
    env = dict(os.environ, CARGO_NET_OFFLINE="true", CARGO_TARGET_DIR=tdir)
    r = subprocess.run(["cargo", "build", "--offline"], cwd=d, env=env, stdout=subprocess.PIPE, stderr=subprocess.PIPE, text=True)
    if r.returncode != 0:
        return None, r.stderr[-1500:]
    return os.path.join(tdir, "debug", "fb-replay"), None


def run(pid, seed, iters, known=False, timeout=240):
    exe, err = build()
    if exe is None:
        return None, "replay driver does not build against the current tree: " + str(err)
    cmd = [exe, pid, "--seed", str(seed or 1), "--iters", str(iters)] + (["--known"] if known else [])
    def limit():
        import resource
        resource.setrlimit(resource.RLIMIT_AS, (3 << 30, 3 << 30))
    try:
        r = subprocess.run(cmd, stdout=subprocess.PIPE, stderr=subprocess.PIPE, text=True, timeout=timeout, preexec_fn=limit)
    except subprocess.TimeoutExpired:
        return None, "timeout"
    for line in r.stdout.splitlines():
        line = line.strip()
        if line.startswith("{"):
            try:
                return json.loads(line), " ".join(cmd)
            except Exception:
                pass
    if r.returncode not in (0, 1):
        # the process died (abort / segfault / memory cap; panics of the crate are caught inside fb-replay and attributed there):
        # memory corruption in the real code.  That is a concrete failing run for the memory-safety properties only - for any
        # other property the search simply did not finish (None: undecided, never an alarm).
        if pid not in ("C03", "C06", "C07", "C08"):
            return None, "timeout"
        return {"property": pid, "scenario": "the real crate crashed while replaying random histories (exit status %d; address space capped at 3 GiB)" % r.returncode,
                "history": [], "observed": (r.stderr or "")[-600:] or "killed / aborted without message (memory exhaustion)"}, " ".join(cmd)
    return None, " ".join(cmd)


def tree_key():
    import hashlib
    h = hashlib.sha256()
    for root in (os.path.join(vx.REPO, "src"), os.path.join(RDIR, "src")):
        for dp, _, fns in sorted(os.walk(root)):
            for fn in sorted(fns):
                h.update(fn.encode())
                h.update(open(os.path.join(dp, fn), "rb").read())
    return h.hexdigest()[:20]


def search_cached(pid, seed):
    """search() memoised per (source tree, replay driver, property, seed): the cross-property triage of driver.py asks for
    the same searches from several checks of one tree."""
    d = os.path.join(vx.VERIF, "build", "replay-cache")
    os.makedirs(d, exist_ok=True)
    path = os.path.join(d, "%s-%s-%s.json" % (tree_key(), pid, seed or 1))
    try:
        doc = json.load(open(path))
        return doc["ok"], doc["found"], doc["cmd"]
    except (OSError, ValueError, KeyError):
        pass
    ok, found, cmd = search(pid, None, None, seed, None)
    if not (isinstance(cmd, str) and (cmd.startswith("replay driver does not build") or cmd == "timeout")):
        tmp = path + ".%d" % os.getpid()
        json.dump({"ok": ok, "found": found, "cmd": cmd}, open(tmp, "w"))
        os.replace(tmp, path)
    return ok, found, cmd


def search(pid, label, failure, seed, plan):
    found, cmd = run(pid, seed, 6000)
    if found is None:
        found, cmd2 = run(pid, (seed or 1) + 7919, 12000)
        cmd = cmd2 or cmd
    if found:
        return True, found, "cd /verif/replay && " + (cmd or "")
    return False, None, cmd


def rerun(doc):
    cmd = doc.get("rerun", "")
    print("re-running: " + cmd)
    r = subprocess.run(cmd, shell=True)
    return 0 if r.returncode == 1 else 1
