"""Runs the bounded search of replay/ (fb-replay) against the real crate at /repo."""
import json, os, subprocess, shutil
import vx

RDIR = os.path.join(vx.VERIF, "replay")


def build():
    if os.path.realpath(vx.REPO) != "/repo":
        # the replay crate depends on /repo by path; a scratch tree is searched through a copy of the crate manifest
        return build_for(vx.REPO)
    env = dict(os.environ, CARGO_NET_OFFLINE="true")
    try:
        shutil.copyfile(os.path.join(vx.REPO, "Cargo.lock"), os.path.join(RDIR, "Cargo.lock"))
    except OSError:
        pass
    r = subprocess.run(["cargo", "build", "--offline"], cwd=RDIR, env=env, stdout=subprocess.PIPE, stderr=subprocess.PIPE, text=True)
    if r.returncode != 0:
        return None, r.stderr[-1500:]
    return os.path.join(RDIR, "target", "debug", "fb-replay"), None


def build_for(repo):
    import tempfile
    d = os.path.join(repo, ".vx-replay")
    os.makedirs(os.path.join(d, "src"), exist_ok=True)
    shutil.copyfile(os.path.join(RDIR, "src", "main.rs"), os.path.join(d, "src", "main.rs"))
    man = open(os.path.join(RDIR, "Cargo.toml")).read().replace('path = "/repo"', 'path = "%s"' % repo)
    open(os.path.join(d, "Cargo.toml"), "w").write(man + "\n[workspace]\n")
    try:
        shutil.copyfile(os.path.join(repo, "Cargo.lock"), os.path.join(d, "Cargo.lock"))
    except OSError:
        pass
    env = dict(os.environ, CARGO_NET_OFFLINE="true", CARGO_TARGET_DIR=os.path.join(RDIR, "target"))
    r = subprocess.run(["cargo", "build", "--offline"], cwd=d, env=env, stdout=subprocess.PIPE, stderr=subprocess.PIPE, text=True)
    if r.returncode != 0:
        return None, r.stderr[-1500:]
    exe = os.path.join(d, "fb-replay")
    shutil.copyfile(os.path.join(RDIR, "target", "debug", "fb-replay"), exe)
    os.chmod(exe, 0o755)
    return exe, None


def run(pid, seed, iters, known=False, timeout=240):
    exe, err = build()
    if exe is None:
        return None, "replay driver does not build against the current tree: " + str(err)
    cmd = [exe, pid, "--seed", str(seed or 1), "--iters", str(iters)] + (["--known"] if known else [])
    def limit():
        import resource
        resource.setrlimit(resource.RLIMIT_AS, (3 << 30, 3 << 30))
    try:
        r = subprocess.run(cmd, stdout=subprocess.PIPE, stderr=subprocess.PIPE, text=True, timeout=timeout, preexec_fn=limit)
    except subprocess.TimeoutExpired:
        return None, "timeout"
    for line in r.stdout.splitlines():
        line = line.strip()
        if line.startswith("{"):
            try:
                return json.loads(line), " ".join(cmd)
            except Exception:
                pass
    if r.returncode not in (0, 1):
        # the real code crashed (panic / abort) while replaying: that is a concrete failing run as well
        return {"property": pid, "scenario": "the real crate crashed while replaying random histories (exit status %d; address space capped at 3 GiB)" % r.returncode,
                "history": [], "observed": (r.stderr or "")[-600:] or "killed / aborted without message (memory exhaustion)"}, " ".join(cmd)
    return None, " ".join(cmd)


def search(pid, label, failure, seed, plan):
    found, cmd = run(pid, seed, 6000)
    if found is None:
        found, cmd2 = run(pid, (seed or 1) + 7919, 12000)
        cmd = cmd2 or cmd
    if found:
        return True, found, "cd /verif/replay && " + (cmd or "")
    return False, None, cmd


def rerun(doc):
    cmd = doc.get("rerun", "")
    print("re-running: " + cmd)
    r = subprocess.run(cmd, shell=True)
    return 0 if r.returncode == 1 else 1
