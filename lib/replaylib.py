"""Replay files and the bounded counterexample search on the real crate (DESIGN.md 3.3)."""
import json, os, subprocess, time
import vx

VERIF = vx.VERIF


def make_replay(pid, label, failure, seed, plan, only_if_found=False):
    """Writes replays/<pid>-<label>.json naming the failed obligation and carrying the verifier output.
    Returns (path, found) where found says whether a concrete failing history on the real crate was found."""
    if failure.get("found_history") is not None:
        found, history, cmd = True, failure["found_history"], "cd /verif/replay && " + str(failure.get("found_cmd"))
    else:
        found, history, cmd = search(pid, label, failure, seed, plan)
    if only_if_found and not found:
        return None, False
    d = os.path.join(VERIF, "replays" if not os.environ.get("VERIF_NO_EVIDENCE") else "build/scratch-replays")
    os.makedirs(d, exist_ok=True)
    safe = "".join(ch if ch.isalnum() or ch in "._-" else "_" for ch in label)
    path = os.path.join(d, "%s-%s.json" % (pid, safe))
    doc = {
        "property": pid, "obligation": label, "labels": failure.get("labels", []), "function": failure.get("fn"),
        "repo_location": failure.get("where"), "verifier_message": failure.get("message"),
        "verifier_output": failure.get("rendered", ""), "failing_input_found": found,
        "failing_history": history, "rerun": cmd or ("bin/check %s --replay %s" % (pid, path)),
        "kani_trace": failure.get("kani_trace"),
    }
    with open(path, "w") as f:
        json.dump(doc, f, indent=1)
    return path, found


def search(pid, label, failure, seed, plan):
    try:
        import replaydriver
    except ImportError:
        return False, None, None
    return replaydriver.search(pid, label, failure, seed, plan)


def run_replay(pid, path):
    doc = json.load(open(path))
    print("replay of %s obligation=%s" % (doc["property"], doc["obligation"]))
    print(doc.get("verifier_output", ""))
    if doc.get("failing_history"):
        try:
            import replaydriver
            return replaydriver.rerun(doc)
        except ImportError:
            pass
    return 0
