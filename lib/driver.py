"""Orchestration of one property check (DESIGN.md 3.3 - 3.5, 8)."""
import json, os, re, sys, time, shutil, tempfile, hashlib
import vx

VERIF = vx.VERIF


# Frames whose failure is a strong hint but not by itself a violation (a new call site of `shared.push` / of the task
# waker can be paid for by the surrounding code): they become a violation only with a failing history on the real crate.
SOFT_FRAMES = {"c12.ready_mark_sites", "c12.no_poll_outside_loop", "c14.wrappers_do_not_wake"}


def load_props():
    props = {}
    for l in open(os.path.join(VERIF, "properties.jsonl")):
        l = l.strip()
        if l:
            p = json.loads(l)
            props[p["id"]] = p
    return props


def load_plan():
    return json.load(open(os.path.join(VERIF, "contracts", "plan.json")))


def write_evidence(pid, ev):
    if os.environ.get("VERIF_NO_EVIDENCE"):
        return
    d = os.path.join(VERIF, "evidence")
    os.makedirs(d, exist_ok=True)
    tmp = os.path.join(d, ".%s.json.tmp" % pid)
    with open(tmp, "w") as f:
        json.dump(ev, f, indent=1, sort_keys=True)
    os.replace(tmp, os.path.join(d, "%s.json" % pid))


def finding_matches(kf, failure):
    """a known finding is identified by property + clause label (+ optional fn); see known_findings.json"""
    if kf.get("label") and kf["label"] not in failure["labels"]:
        return False
    if kf.get("fn") and kf["fn"] != failure.get("fn"):
        return False
    if kf.get("where_file") and not (failure.get("where") or "").startswith(kf["where_file"]):
        return False
    return True


def main(argv, doc):
    if not argv:
        print(doc)
        return 3
    pid = argv[0]
    tier = os.environ.get("VERIF_TIER", "") or "quick"
    replay = None
    i = 1
    while i < len(argv):
        if argv[i] == "--tier":
            tier = argv[i + 1]; i += 1
        elif argv[i] == "--replay":
            replay = argv[i + 1]; i += 1
        i += 1
    if tier not in ("quick", "thorough"):
        tier = "quick"
    try:
        seed = int(os.environ.get("VERIF_SEED", "0") or 0)
    except ValueError:
        seed = 0
    if replay:
        import replaylib
        return replaylib.run_replay(pid, replay)
    try:
        return run_check(pid, tier, seed)
    finally:
        if os.environ.get("VERIF_NO_EVIDENCE"):
            # scratch runs (seeded corpus, matrix) leave nothing behind but their replay files
            import shutil
            shutil.rmtree(os.path.join(VERIF, "build", pid + "-scratch-%d" % os.getpid()), ignore_errors=True)


def undecided(pid, tier, seed, t0, reason, extra=None):
    print("UNDECIDED property=%s reason=%s" % (pid, reason.replace("\n", " ")[:600]))
    plan = load_plan().get(pid, {})
    ev = {
        "property_id": pid, "tier": tier, "seed": seed, "level": plan.get("level", "proof"),
        "coverage": {"obligations": 0, "discharged": 0, "checker_cmd": "bin/check %s" % pid, "trusted_base": [],
                     "evaluations": 1, "distinct_nontrivial": 0, "undecided": reason[:2000]},
        "wall_s": round(time.time() - t0, 2), "violations": 0, "assumptions": ["run was UNDECIDED: " + reason[:500]],
    }
    if extra:
        ev["coverage"].update(extra)
    write_evidence(pid, ev)
    return 2


def run_check(pid, tier, seed):
    t0 = time.time()
    props = load_props()
    if pid not in props:
        print("unknown property id %s" % pid)
        return 3
    plan = load_plan().get(pid)
    if plan is None:
        print("property %s is not claimed (see MANIFEST.json not_applicable)" % pid)
        return 3
    bdir = os.path.join(VERIF, "build", pid + ("-scratch-%d" % os.getpid() if os.environ.get("VERIF_NO_EVIDENCE") else ""))
    os.makedirs(bdir, exist_ok=True)
    known = vx.load_known()

    failures_mine = []          # failures attributed to this property
    other_failures = []
    failures_all = []
    coverage = {}
    trusted = []
    units = []
    verus_info = None
    solver_ms = 0

    # ------------------------------------------------------------------ Verus
    if plan.get("verus", True):
        assume_fns = []
        for attempt in range(4):
          # (loop: a function whose text Verus rejects is demoted to its contract and the file re-generated, see below)
          path, mp, err = vx.extract(bdir, assume_fns=assume_fns)
          if err:
              return finish_undecided_or_replay(pid, tier, seed, t0, "extraction: " + err, plan)
          attr = vx.Attribution(mp)
          # the vacuity-probe build runs concurrently with the main run
          NSHARD = 1
          pshards, perr = [], None
          if os.environ.get("VERIF_NO_PROBES"):
              # scratch evaluation of seeded changes: the probes guard the CONTRACTS against vacuity and are run by every
              # registered check; they say nothing about an edited tree
              perr = "skipped (VERIF_NO_PROBES)"
          for sh in range(NSHARD if perr is None else 0):
              ppath, pmp, e = vx.extract(bdir, probes=True, name="fb_probe%d" % sh, probe_prop=(None if tier == "thorough" else pid), shard=(NSHARD, sh), assume_fns=assume_fns)
              if e is not None:
                  perr = e
                  break
              pshards.append((ppath, pmp, vx.start_verus(ppath, seed=seed, multiple_errors=400, threads=12, rlimit=60)))
          res = vx.run_verus(path, seed=seed, threads=12)
          verus_info = res
          if res["json"] is None:
              return finish_undecided_or_replay(pid, tier, seed, t0, "verus produced no result: " + res["stderr"][-600:], plan)
          failures, cerrs, rl = vx.classify(res["diags"], attr)
          if cerrs and attempt < 3:
              # which functions does the verifier reject?  Demote them to their contracts (callers are still checked
              # against those) and try again: the properties they carry become undecided, the others are decided normally
              bad = set()
              for d in cerrs:
                  for sp in d.get("spans", []):
                      f = attr.fn_at(sp["line_start"])
                      if f and f.get("mode") == "verify":
                          bad.add(f["fn"])
              bad -= set(assume_fns)
              if bad:
                  assume_fns += sorted(bad)
                  for _pp, _pm, pst in pshards:
                      try:
                          vx.finish_verus(pst)
                      except Exception:
                          pass
                  continue
          break
        if cerrs:
            msg = "; ".join(sorted(set(d.get("message", "")[:200] for d in cerrs))[:4])
            # the verifier cannot read the edited code; the syntactic frames still can (they look at /repo's AST, not at the
            # generated file): a frame that fails outright is reported before the check gives up on the proof
            rc_f = frames_only_verdict(pid, plan, seed)
            if rc_f is not None:
                return rc_f
            return finish_undecided_or_replay(pid, tier, seed, t0, "generated file outside Verus' subset / lost construct: " + msg, plan)
        vr = res["json"].get("verification-results", {})
        if vr.get("encountered-vir-error"):
            return finish_undecided_or_replay(pid, tier, seed, t0, "verus VIR error", plan)
        # per-function results
        fb = []
        for m in res["json"].get("times-ms", {}).get("smt", {}).get("smt-run-module-times", []):
            fb += m.get("function-breakdown", [])
        solver_ms = res["json"].get("times-ms", {}).get("smt", {}).get("total", 0)
        fn_props = {}
        for f in mp["functions"]:
            short = f["fn"].split(" for ")[-1]
            fn_props[short] = f
        my_units, all_units = [], []
        for u in fb:
            name = u["function"].split("::", 1)[1] if "::" in u["function"] else u["function"]
            name = re.sub(r"^m_[A-Za-z0-9_]+::", "", name)
            mode = u.get("mode:", u.get("mode"))
            ent = {"unit": name, "mode": mode, "ok": bool(u["success"]), "smt_ms": u.get("time", 0), "rlimit": u.get("rlimit")}
            all_units.append(ent)
            f = fn_props.get(name)
            if f is not None and pid in f["props"]:
                ent["repo"] = "%s:%d" % (f["file"], f["src_line"])
                ent["rules_fired"] = f["rules_fired"]
                my_units.append(ent)
            elif f is None and mode == "proof":
                my_units.append(ent)   # shared lemmas
        if rl:
            # a function ran out of resources: undecided unless it is unrelated to this property
            hit = [d.get("message", "")[:160] for d in rl]
            return finish_undecided_or_replay(pid, tier, seed, t0, "SMT resource limit: " + "; ".join(hit[:3]), plan)
        for f in failures:
            f["source"] = "verus"
            failures_all.append(f)
            (failures_mine if pid in f["props"] else other_failures).append(f)
        # a unit counts against this property only if one of its failures is attributed to this property
        kf_mine = [k for k in known.get("findings", []) if k["property"] == pid]
        def is_known(f):
            return any(finding_matches(k, f) for k in kf_mine)
        failing_fns_mine = set(f["fn"] for f in failures_mine if not is_known(f))
        known_labels = set(k.get("label") for k in kf_mine if k.get("label"))
        for u in my_units:
            if not u["ok"]:
                f = fn_props.get(u["unit"])
                key = f["fn"] if f else u["unit"]
                if key not in failing_fns_mine and not any((ff["fn"] or "").endswith(u["unit"]) for ff in failures_mine if not is_known(ff)):
                    u["ok_for_this_property"] = True
        known_labels = set(k.get("label") for k in known.get("findings", []) if k["property"] == pid and k.get("label"))
        my_clauses = [c for c in mp["clauses"] if pid in c["props"]]
        failed_labels = set()
        for f in failures:
            failed_labels.update(f["labels"])
        clause_rows = [{"label": c["label"], "kind": c["kind"], "ok": c["label"] not in failed_labels} for c in my_clauses
                       if not (c["label"] in known_labels and c["label"] in failed_labels)]
        coverage["known_finding_clauses"] = sorted(l for l in known_labels if l in failed_labels)
        assumed = [f for f in mp["functions"] if f["mode"] == "assume" and pid in f["props"]]
        coverage.update({
            "verus_units": my_units,
            "clauses": clause_rows,
            "functions_under_contract": [{"fn": f["fn"], "repo": "%s:%d" % (f["file"], f["src_line"]), "mode": f["mode"],
                                          "rules_fired": f["rules_fired"]} for f in mp["functions"] if pid in f["props"]],
            "assumed_contracts": [f["fn"] for f in assumed],
            "extraction_edits": len(mp["edits"]),
            "verus_total_units": len(all_units), "verus_total_failed_units": sum(1 for u in all_units if not u["ok"]),
        })
        units += [("verus:" + u["unit"], u["ok"] or u.get("ok_for_this_property", False)) for u in my_units]
        units += [("clause:" + c["label"], c["ok"]) for c in clause_rows]
        for kind, name, line in vx.assumption_scan(path):
            trusted.append("%s %s (generated line %d)" % (kind, name, line))

        # -------------------------------------------------------------- vacuity probes
        probe_info = {"total": 0, "failed_as_required": 0, "not_failing": []}
        if perr is None:
            for ppath, pmp, pstarted in pshards:
                pres = vx.finish_verus(pstarted)
                plines = open(ppath).read().splitlines()
                failing_lines = set()
                for d in pres["diags"]:
                    if d.get("level") == "error" and "assertion failed" in d.get("message", ""):
                        for sp in d.get("spans", []):
                            failing_lines.add(sp["line_start"])
                rl_fns = set()
                for d in pres["diags"]:
                    if d.get("level") == "error" and vx.RLIMIT_PAT.search(d.get("message", "")):
                        for sp in d.get("spans", []):
                            f = vx.Attribution(pmp).fn_at(sp["line_start"])
                            if f:
                                rl_fns.add(f["fn"])
                for p in pmp["probes"]:
                    pat = "vx_probe(%d)" % p["id"]
                    ln = next((k + 1 for k, l in enumerate(plines) if pat in l), None)
                    probe_info["total"] += 1
                    if ln in failing_lines:
                        probe_info["failed_as_required"] += 1
                    elif p["fn"] in rl_fns:
                        probe_info.setdefault("undetermined_rlimit", []).append("%s @ %s" % (p["fn"], p["pos"]))
                    else:
                        probe_info["not_failing"].append("%s @ %s" % (p["fn"], p["pos"]))
        else:
            probe_info["error"] = perr
        coverage["vacuity_probes"] = probe_info
        for name in probe_info["not_failing"]:
            units.append(("probe:" + name, False))
        if probe_info["not_failing"]:
            # an `assert(false)` that verifies: the point is unreachable or the context contradictory - every obligation
            # behind it is vacuous, so nothing is concluded (never an alarm, never a pass)
            return finish_undecided_or_replay(pid, tier, seed, t0, "vacuity probe(s) did not fail (unreachable exit or contradictory contract): " + "; ".join(probe_info["not_failing"][:4]), plan)

    # ------------------------------------------------------------------ Kani units
    kani_rows = []
    kani_undecided = None
    if plan.get("kani"):
        import kaniunits
        kr = kaniunits.run(pid, plan["kani"], tier, seed)
        kani_rows = kr["rows"]
        coverage["bounded_parts"] = kr["rows"]
        trusted += kr.get("trusted", [])
        if kr.get("undecided") and not any(not row["ok"] for row in kr["rows"]):
            kani_undecided = "kani: " + kr["undecided"]
        for row in kr["rows"]:
            units.append(("kani:" + row["harness"], row["ok"]))
            if not row["ok"]:
                failures_mine.append({"message": "Kani harness failed: " + row["harness"], "labels": [row.get("label", row["harness"])],
                                      "label_props": {}, "fn": row["harness"], "props": [pid], "where": row.get("where"),
                                      "rendered": row.get("output", "")[-3000:], "kani_trace": row.get("trace")})

    # ------------------------------------------------------------------ bounded stand-ins for assumed contracts
    # (DESIGN 3.1: where a block / function is outside the verifier's reach its ASSUMED contract is checked by a
    #  bounded search on the real crate with a stated bound; labelled bounded, never counted as proved)
    standin_rows = []
    for sdef in plan.get("standins", []):
        import replaydriver
        iters = sdef.get("iters", 3000) * (4 if tier == "thorough" else 1)
        found, cmd = replaydriver.run(sdef["replay_prop"], seed or 1, iters, timeout=(240 if tier == "thorough" else 60))
        row = {"harness": sdef["name"], "bound": "%d random operation histories (seed %d; <= 18 operations each, every fifth one of an unbounded collection up to 45; capacities 0..3; bursts crossing the 61-poll budget and the 32/64/128 group sizes) plus the fixed scenario families of this property, fb-replay %s" % (iters, seed or 1, sdef["replay_prop"]),
               "covers_assumed": sdef.get("covers", ""), "ok": found is None, "cmd": cmd, "bounded": True}
        if isinstance(cmd, str) and found is None and (cmd.startswith("replay driver does not build") or cmd == "timeout"):
            row["ok"] = True
            row["undetermined"] = cmd
        standin_rows.append(row)
        units.append(("bounded:" + sdef["name"], row["ok"]))
        if found is not None:
            failures_mine.append({"message": "bounded stand-in found a failing history on the real crate: " + str(found.get("observed")), "labels": [sdef["name"]],
                                  "label_props": {}, "fn": sdef["name"], "props": [pid], "where": None, "rendered": json.dumps(found), "found_history": found, "found_cmd": cmd})
    if standin_rows:
        coverage.setdefault("bounded_parts", [])
        coverage["bounded_parts"] = coverage["bounded_parts"] + standin_rows

    # ------------------------------------------------------------------ static frames
    if plan.get("frames"):
        import frames
        fr = frames.run(pid, plan["frames"])
        coverage["frames"] = fr["rows"]
        hard_frame_failure = any((not r["ok"]) and not r.get("undecided") and r["name"] not in SOFT_FRAMES for r in fr["rows"])
        for row in fr["rows"]:
            units.append(("frame:" + row["name"], row["ok"]))
            if row.get("undecided"):
                if hard_frame_failure:
                    continue    # another frame of this property fails outright: that is reported, the open question is not
                return finish_undecided_or_replay(pid, tier, seed, t0, "frame %s: %s" % (row["name"], row["undecided"]), plan)
            if not row["ok"]:
                failures_mine.append({"message": "frame condition failed: " + row["detail"], "labels": [row["name"]], "label_props": {},
                                      "fn": row["name"], "props": [pid], "where": row.get("where"), "rendered": row["detail"],
                                      "soft": row["name"] in SOFT_FRAMES})

    # ------------------------------------------------------------------ thorough extras
    if tier == "thorough" and plan.get("verus", True):
        import thorough
        th = thorough.run(pid, bdir, seed, plan)
        coverage["thorough"] = th["summary"]
        if th.get("unstable"):
            coverage["unstable_functions"] = th["unstable"]

    # ------------------------------------------------------------------ decide
    # failures inside a function whose exits / loops / arms no longer match the sidecar are TENTATIVE: a proof hint may
    # simply sit at the wrong place.  They become a violation only if the bounded search finds a concrete failing history.
    shifted = set()
    shifted_info = []
    if plan.get("verus", True):
        shifted_info = mp.get("anchor_shifted", [])
        shifted = set(a["fn"] for a in shifted_info)
    # functions that now call something they did not call on the reviewed tree (a new closure, a std combinator, a new
    # helper): the verifier has no contract for the newcomer, so a failed clause there may be nothing but a missing
    # specification - tentative, like a structural change
    new_callees = {}
    if plan.get("verus", True) and any(f.get("source") == "verus" for f in failures_mine):
        try:
            import frames
            fcts, _ = frames.facts(bdir)
            base_cs = json.load(open(os.path.join(VERIF, "contracts", "callsets.json")))
            for ff in mp["functions"]:
                k = "%s:%s" % (ff["file"], ff["fn"])
                if fcts is None or k not in base_cs:
                    continue
                cur = set(fcts["calls"].get(k, [])) | set("!" + m for m in fcts["macros"].get(k, []))
                extra = sorted(cur - set(base_cs[k]))
                if extra:
                    new_callees[ff["fn"]] = extra
        except Exception:
            new_callees = {}
        if new_callees:
            coverage["new_callees"] = new_callees
            for fn_, extra in new_callees.items():
                if fn_ not in shifted:
                    shifted.add(fn_)
                    shifted_info.append({"fn": fn_, "what": "calls %s, which the reviewed tree did not call there" % ", ".join(extra[:4])})
    tentative = [f for f in failures_mine if (f.get("fn") in shifted or f.get("soft")) and not f.get("found_history")]
    failures_mine = [f for f in failures_mine if f not in tentative]
    tentative_undecided = None
    if tentative:
        import replaydriver
        ok_t, found, cmd = replaydriver.search_cached(pid, seed)
        if ok_t:
            f0 = dict(tentative[0])
            f0["found_history"], f0["found_cmd"] = found, (cmd or "").replace("cd /verif/replay && ", "")
            f0["message"] += " (confirmed by a failing history on the real crate)"
            failures_mine.append(f0)
        elif any(f.get("soft") for f in tentative):
            tentative_undecided = "frame %s no longer holds (%s); the bounded search found no failing history for %s" % (
                sorted(set(f.get("fn") for f in tentative if f.get("soft"))), "; ".join(f["rendered"][:200] for f in tentative if f.get("soft")), pid)
        else:
            tentative_undecided = "structure of %s changed (%s) and its proof no longer goes through; the bounded search found no failing history" % (
                sorted(set(f.get("fn") for f in tentative)), "; ".join(a["what"] for a in shifted_info))
    # ---- functions of this property whose proof has a failed MID-BODY obligation (assertion, invariant, callee precondition,
    # overflow) attributed to other properties only: Verus assumes a failed obligation afterwards, so the clauses this
    # property has in those functions are no longer established.  Violation only with a failing history, else undecided.
    affected_undecided = None
    if plan.get("verus", True) and not failures_mine:
        mine_fns = set()
        masking_fns = {}
        for f in failures_all:
            if pid in f.get("props", []):
                mine_fns.add(f.get("fn"))
            if not str(f.get("message", "")).startswith("postcondition"):
                masking_fns.setdefault(f.get("fn"), []).extend(f.get("labels") or ["(unlabelled)"])
        for lost in mp.get("anchor_lost", []):
            masking_fns.setdefault(lost["fn"], []).append("(body not verified: %s)" % lost["why"][:160])
        aff = [ff["fn"] for ff in mp["functions"] if ff["fn"] in masking_fns and pid in ff["props"] and ff["fn"] not in mine_fns]
        if aff:
            import replaydriver
            ok_a, found, cmd = replaydriver.search_cached(pid, seed)
            labs = sorted(set(l for fn in aff for l in masking_fns[fn]))
            if ok_a:
                failures_mine.append({"message": "function(s) %s no longer verify (failed obligations: %s) and the bounded search found a failing history for %s" % (aff, labs, pid),
                                      "labels": [aff[0]], "label_props": {}, "fn": aff[0], "props": [pid], "where": None, "rendered": "", "source": "verus",
                                      "found_history": found, "found_cmd": (cmd or "").replace("cd /verif/replay && ", "")})
            else:
                affected_undecided = "the proof of %s has failed obligations (%s) attributed to other properties; its clauses for %s are therefore not established, and the bounded search found no failing history for %s" % (aff[:3], labs[:4], pid, pid)
    kf_lines, violations = [], []
    for f in failures_mine:
        hit = next((k for k in known.get("findings", []) if k["property"] == pid and finding_matches(k, f)), None)
        if hit:
            line = "KNOWN-FINDING: property=%s %s" % (pid, hit["what"])
            if line not in kf_lines:
                kf_lines.append(line)
        else:
            violations.append(f)

    # ---- triage of verifier-only failures (DESIGN 3.4).  An obligation that no longer discharges is a violation of THIS
    # property when the bounded search confirms it on the real crate, or when nothing better is known.  When the same
    # function's failures are also attributed to another property and only THAT property is confirmed by a concrete failing
    # history, this property's failed obligation is collateral of the same edit (its proof leaned on the broken fact): it
    # is reported as undecided, not as an alarm.
    collateral_undecided = None
    vv = [f for f in violations if f.get("source") == "verus" and f.get("found_history") is None]
    if vv:
        import replaydriver
        ok_self, found_self, cmd_self = replaydriver.search_cached(pid, seed)
        if ok_self:
            for f in vv:
                f["found_history"], f["found_cmd"] = found_self, cmd_self.replace("cd /verif/replay && ", "")
        else:
            fns = set(f.get("fn") for f in vv)
            others = set()
            for f in failures_all:
                if f.get("fn") in fns:
                    others.update(f.get("props", []))
            # ... and every property the failing functions carry (the edit may break one whose own evidence is a frame or a
            # bounded unit, not a Verus clause)
            for ff in mp["functions"]:
                if ff["fn"] in fns:
                    others.update(ff["props"])
            others.discard(pid)
            confirmed = [q for q in sorted(others) if replaydriver.search_cached(q, seed)[0]]
            coverage["triage"] = {"verifier_only_failures": sorted(set(l for f in vv for l in f["labels"])) or sorted(str(x) for x in fns),
                                  "no_failing_history_for": pid, "other_properties_of_the_same_functions": sorted(others), "confirmed_on_real_crate": confirmed}
            if confirmed:
                violations = [f for f in violations if f not in vv]
                collateral_undecided = ("obligation(s) %s of %s no longer discharge, but the bounded search found no failing history for %s while it "
                                        "confirmed a violation of %s in the same function(s): treated as collateral of that violation") % (
                    sorted(set(l for f in vv for l in f["labels"]))[:4], sorted(str(x) for x in fns)[:3], pid, ",".join(confirmed))

    rc = 0
    replay_paths = []
    if violations:
        import replaylib
        # one replay file per distinct failed obligation
        seen = set()
        for f in violations:
            lab = (f["labels"][0] if f["labels"] else (f["fn"] or "obligation")) + ""
            if lab in seen:
                continue
            seen.add(lab)
            rp, found = replaylib.make_replay(pid, lab, f, seed, plan)
            replay_paths.append(rp)
            print("VIOLATION property=%s replay=%s%s" % (pid, rp, "" if found else " no-failing-input-found"))
        rc = 1
    for l in kf_lines:
        print(l)
    if rc == 0 and (tentative_undecided or collateral_undecided or affected_undecided or kani_undecided):
        return undecided(pid, tier, seed, t0, tentative_undecided or collateral_undecided or affected_undecided or kani_undecided)

    level = plan.get("level", "proof")
    # bounded units (Kani harnesses with a bound, replay stand-ins) and syntactic frames decide together with the proof, but
    # are never counted as proved: for a proof-level claim `obligations` / `discharged` count only what a verifier
    # discharged for the full input domain (Verus units and clauses, loop-free / contract Kani units)
    complete_kani = set("kani:" + r["harness"] for r in kani_rows if not r.get("bounded", True))
    def is_proof_unit(name):
        return name.startswith(("verus:", "clause:")) or name in complete_kani
    if level == "proof":
        bounded_units = [(n, ok) for n, ok in units if n.startswith(("kani:", "bounded:")) and not is_proof_unit(n)]
        frame_units = [(n, ok) for n, ok in units if n.startswith("frame:")]
        coverage["bounded_units"] = {"total": len(bounded_units), "passed": sum(1 for _, ok in bounded_units if ok),
                                     "names": [n for n, _ in bounded_units], "note": "bounded: decide together with the proof, never counted as proved"}
        coverage["frame_conditions"] = {"total": len(frame_units), "passed": sum(1 for _, ok in frame_units if ok), "names": [n for n, _ in frame_units]}
        counted = [(n, ok) for n, ok in units if is_proof_unit(n)]
    else:
        counted = units
    n_obl = len(counted)
    n_ok = sum(1 for _, ok in counted if ok)
    samples = []
    for c in coverage.get("clauses", [])[:6]:
        samples.append({"clause": c["label"], "discharged": c["ok"]})
    for u in coverage.get("verus_units", [])[:6]:
        samples.append({"unit": u["unit"], "ok": u["ok"], "smt_ms": u["smt_ms"]})
    for row in kani_rows[:4]:
        samples.append({"kani": row["harness"], "ok": row["ok"], "bound": row.get("bound")})
    cov = {
        "obligations": n_obl, "discharged": n_ok,
        "checker_cmd": (verus_info["cmd"] if verus_info else "") + (" ; cargo kani (see bounded_parts)" if kani_rows else ""),
        "trusted_base": plan.get("trusted", []) + trusted,
        "solver_ms": solver_ms,
        "samples": samples or [{"note": "no unit ran"}],
        "evaluations": max(1, n_obl), "distinct_nontrivial": n_obl,
        "rule": "one evaluation per Verus verification unit (function / lemma) in the property's closure and per labelled contract clause carrying this id (plus complete Kani units); bounded units and frames are listed separately (bounded_units, frame_conditions)" if level == "proof" else "one evaluation per Kani harness (bounded ones labelled in bounded_parts) and frame",
        "known_findings_printed": kf_lines,
        "other_properties_failing_units": sorted(set((f["fn"] or "?") for f in other_failures)),
        "explanation": plan.get("explanation", ""),
    }
    if level == "model_checking":
        st = sum(r.get("checks", 0) for r in kani_rows) or 1
        cov.update({"states": st, "transitions": st, "traces_validated_against_impl": len(kani_rows)})
    cov.update(coverage)
    ev = {"property_id": pid, "tier": tier, "seed": seed, "level": level, "coverage": cov,
          "assumptions": plan.get("assumptions", []), "wall_s": round(time.time() - t0, 2),
          "violations": len(violations)}
    if replay_paths:
        ev["coverage"]["replays"] = replay_paths
    write_evidence(pid, ev)
    if rc == 0:
        print("OK property=%s tier=%s obligations=%d discharged=%d known_findings=%d wall=%.1fs" % (pid, tier, n_obl, n_ok, len(kf_lines), time.time() - t0))
    return rc


def frames_only_verdict(pid, plan, seed):
    """Used when Verus rejects the generated file: hard (non-soft) frame failures are violations in their own right."""
    if not plan.get("frames"):
        return None
    import frames, replaylib
    fr = frames.run(pid, plan["frames"])
    bad = [r for r in fr["rows"] if not r["ok"] and not r.get("undecided") and r["name"] not in SOFT_FRAMES]
    if not bad:
        return None
    for row in bad:
        f = {"message": "frame condition failed: " + row["detail"], "labels": [row["name"]], "label_props": {}, "fn": row["name"], "props": [pid],
             "where": row.get("where"), "rendered": row["detail"]}
        rp, found = replaylib.make_replay(pid, row["name"], f, seed, plan)
        print("VIOLATION property=%s replay=%s%s" % (pid, rp, "" if found else " no-failing-input-found"))
    return 1


def finish_undecided_or_replay(pid, tier, seed, t0, reason, plan):
    """The verifier could not decide.  Before giving up, the bounded replay search on the real crate is tried:
    a concrete failing history is a violation in its own right (labelled bounded, not a proof result)."""
    try:
        import replaylib
        rp, found = replaylib.make_replay(pid, "undecided", {"message": reason, "labels": [], "fn": None, "props": [pid], "where": None,
                                                                "rendered": reason}, seed, plan, only_if_found=True)
    except Exception as e:  # replay driver not available: stay undecided
        rp, found = None, False
    if found:
        print("VIOLATION property=%s replay=%s" % (pid, rp))
        ev = {"property_id": pid, "tier": tier, "seed": seed, "level": plan.get("level", "proof"),
              "coverage": {"obligations": 1, "discharged": 0, "checker_cmd": "replay driver (bounded search on the real crate; verifier undecided: %s)" % reason[:300],
                           "trusted_base": [], "evaluations": 1, "distinct_nontrivial": 1, "samples": [{"replay": rp}]},
              "wall_s": round(time.time() - t0, 2), "violations": 1}
        write_evidence(pid, ev)
        return 1
    return undecided(pid, tier, seed, t0, reason)
