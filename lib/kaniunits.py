"""Kani units (bounded stand-ins and complete loop-free lemmas) on mechanically generated copies of /repo/src.

The crate under verification is generated on every run by kani/gen_crate.py from /repo's CURRENT working tree
(verbatim copy of src/; for the harness groups L/A/B the four nested RawWaker vtable functions of waker_list.rs are
hoisted to module level, visibility only - see gen_crate.py; group V uses the byte-identical file) into a scratch
directory outside /repo and /verif, which is removed when the run ends.  Only the dependency build cache is kept
(under /verif/build/kani-target-*, git-ignored) so that later runs do not rebuild cordyceps/spin/diatomic-waker.
"""
import json, os, re, shutil, subprocess, tempfile, time
from concurrent.futures import ThreadPoolExecutor
import vx

KDIR = os.path.join(vx.VERIF, "kani")

# harness -> (variant, label, bound text)
HARNESSES = {
    # ---- complete lemmas (loop free, full domain)
    "l_layout_lemma_all_caps": ("hoist", "c03.layout", "COMPLETE (loop-free, every cap: usize): layout/extend offset == slice_offset(), size covers cap+1 items, alignment"),
    "l_layout_no_panic_below_bound": ("hoist", "c03.layout", "COMPLETE for all cap <= MAX_CAP_NO_PANIC: WakerList::layout does not panic"),
    "l_layout_size_facts": ("hoist", "c03.layout", "concrete target facts (x86_64)"),
    "l_meta_raw_roundtrip_cap3": ("hoist", "c03.header_roundtrip", "cap 3, symbolic slot index <= 3: meta_raw(slice_start+i) == header"),
    "c_slice_offset": ("contracts", "c03.layout", "function contract of slice_offset (proof_for_contract)"),
    "c_inc_strong": ("contracts", "c03.refcount", "function contract: strong == old+1 for every count <= isize::MAX"),
    "c_dec_strong": ("contracts", "c03.refcount", "function contract: strong+1 == old && result == (old == 1), every count >= 1"),
    "c_meta_raw": ("contracts", "c03.header_roundtrip", "function contract of meta_raw, cap 3"),
    # ---- life cycle (C03), bounded
    "a_new_drop_cap0": ("hoist", "c03.seq_lifecycle", "cap 0: new; drop"),
    "a_new_drop_cap1": ("hoist", "c03.seq_lifecycle", "cap 1: new; drop"),
    "a_new_drop_cap3": ("hoist", "c03.seq_lifecycle", "cap 3: new; drop"),
    "a_waker_points_at_slot": ("hoist", "c03.seq_lifecycle", "cap 2, both slots: waker data/vtable"),
    "a_lifecycle_last_owner_wake_queued": ("hoist", "c03.seq_lifecycle", "cap 2, concrete 5-step sequence: freed by a child waker while its slot is queued"),
    "a_lifecycle_concrete_old_timeout": ("hoist", "c03.seq_lifecycle", "cap 2, concrete: clone, drop handle, wake_by_ref, wake"),
    "a_lifecycle_cap3_waker_frees_kani_dealloc": ("hoist", "c03.seq_lifecycle", "cap 3, concrete 6-step sequence, Kani's dealloc size check"),
    "a_lifecycle_cap1_sym1": ("hoist", "c03.seq_lifecycle", "cap 1, 1 symbolic op of 6"),
    "a_lifecycle_cap1_sym2": ("hoist", "c03.seq_lifecycle", "cap 1, 2 symbolic ops"),
    "a_lifecycle_cap1_sym3": ("hoist", "c03.seq_lifecycle", "cap 1, 3 symbolic ops"),
    "a_lifecycle_cap2_sym1": ("hoist", "c03.seq_lifecycle", "cap 2, 1 symbolic op"),
    "a_lifecycle_cap2_sym2": ("hoist", "c03.seq_lifecycle", "cap 2, 2 symbolic ops"),
    "a_lifecycle_after_handle_drop_sym2": ("hoist", "c03.seq_lifecycle", "cap 2, prefix clone+drop handle, 2 symbolic waker ops after the handle is gone"),
    "a_lifecycle_two_slots_after_handle_drop_sym2": ("hoist", "c03.seq_lifecycle", "cap 2, two slots, 2 symbolic ops after handle drop"),
    "a_lifecycle_two_clones_sym2": ("hoist", "c03.seq_lifecycle", "cap 2, two clones of one slot, 2 symbolic ops"),
    "v_lifecycle_after_handle_drop": ("nohoist", "c03.seq_lifecycle", "byte-identical file, real core::task::Waker API, concrete sequence"),
    "v_lifecycle_handle_last": ("nohoist", "c03.seq_lifecycle", "byte-identical file, real API, handle is last owner"),
    "v_lifecycle_cap3_child_frees": ("nohoist", "c03.seq_lifecycle", "byte-identical file, cap 3, child waker frees"),
    "v_child_waker_frees_header_with_task_waker": ("nohoist", "c03.seq_lifecycle", "byte-identical file, real DiatomicWaker, wake after handle drop"),
    # ---- producer/consumer protocol (C01 C12 C14), bounded, sequential
    "b_protocol_cap2_repeated_wakes_concrete": ("hoist", "c12.flag_protocol", "cap 2, concrete 8-step sequence with repeated wakes"),
    "b_protocol_cap3_pushpop_concrete": ("hoist", "c12.flag_protocol", "cap 3, 10 concrete push/pop operations"),
    "b_push_of_queued_slot_links_once": ("hoist", "c03.node_linked_once", "cap 2, concrete: wake 0, wake 1, owner pushes the queued slot 0, three pops: [0, 1, empty]"),
    "b_push_of_queued_slot_links_once_rev": ("hoist", "c03.node_linked_once", "cap 2, concrete: wake 1, wake 0, owner pushes the queued slot 1 twice, three pops: [1, 0, empty]"),
    "b_register_and_notify_target": ("hoist", "c01.notify_registered", "cap 2, register(w1)..register(w2): notifications go to the last registered waker; push/repeated wakes do not notify"),
    "b_protocol_cap1_sym3": ("hoist", "c12.flag_protocol", "cap 1, 3 symbolic ops (push / wake_by_ref / pop)"),
    "b_protocol_cap2_sym2": ("hoist", "c12.flag_protocol", "cap 2, 2 symbolic ops"),
    "b_step_from_q0_sym2": ("hoist", "c12.flag_protocol", "cap 2 from queue [0], 2 symbolic ops"),
    "b_step_from_q1_sym2": ("hoist", "c12.flag_protocol", "cap 2 from queue [1], 2 symbolic ops"),
    "b_step_from_q01_sym2": ("hoist", "c12.flag_protocol", "cap 2 from queue [0,1], 2 symbolic ops"),
    "b_step_from_q10_sym1": ("hoist", "c12.flag_protocol", "cap 2 from queue [1,0], 1 symbolic op"),
    "b_step_from_empty_after_pops_sym1": ("hoist", "c12.flag_protocol", "cap 2, emptied queue, 1 symbolic op"),
    "v_notify_real_diatomic_one_shot": ("nohoist", "c14.notify_on_transition_only", "byte-identical file, real DiatomicWaker + counting task waker"),
    "v_register_replaces_task_waker": ("nohoist", "c01.notify_registered", "byte-identical file: register(t1) twice, register(t2): only t2 woken"),
}


def gen(variant, repo, out):
    cmd = ["python3", os.path.join(KDIR, "gen_crate.py"), out, "--repo", repo]
    if variant == "nohoist":
        cmd += ["--no-hoist", "--harness", os.path.join(KDIR, "harness_api_nostub.rs")]
    elif variant == "contracts":
        cmd += ["--contracts"]
    r = vx.sh(cmd)
    return r.returncode == 0, (r.stdout + r.stderr)[-1500:]


def _cache_path(harness):
    """Scratch runs only: every harness lives in `mod waker_list` and exercises src/waker_list.rs (plus the dependency crates)
    and nothing else of the crate, so its verdict is a function of that file, the harness sources and the generator."""
    if not os.environ.get("VERIF_NO_EVIDENCE"):
        return None
    import hashlib
    h = hashlib.sha256()
    for f in [os.path.join(vx.REPO, "src", "waker_list.rs"), os.path.join(vx.REPO, "Cargo.lock")] + sorted(
            os.path.join(KDIR, x) for x in os.listdir(KDIR) if x.endswith((".rs", ".py", ".sh"))):
        try:
            h.update(open(f, "rb").read())
        except OSError:
            h.update(b"?")
    d = os.path.join(vx.VERIF, "build", "kani-cache")
    os.makedirs(d, exist_ok=True)
    return os.path.join(d, "%s-%s.json" % (h.hexdigest()[:20], harness))


def run_one(crate, harness, timeout, target):
    cp = _cache_path(harness)
    if cp and os.path.exists(cp):
        try:
            return json.load(open(cp))
        except ValueError:
            pass
    res = _run_one(crate, harness, timeout, target)
    if cp and res["verdict"] in ("SUCCESSFUL", "FAILED"):
        tmp = cp + ".%d" % os.getpid()
        json.dump(res, open(tmp, "w"))
        os.replace(tmp, cp)
    return res


def _run_one(crate, harness, timeout, target):
    env = dict(os.environ, CARGO_NET_OFFLINE="true", CARGO_TARGET_DIR=target)
    t0 = time.time()
    # one cargo-kani at a time per target directory, also across concurrently running checks (scratch runs of the seeded corpus)
    import fcntl
    os.makedirs(target, exist_ok=True)
    with open(target + ".lock", "w") as lk:
        fcntl.flock(lk, fcntl.LOCK_EX)
        r = subprocess.run(["bash", os.path.join(KDIR, "run_harness.sh"), crate, harness, str(timeout)], env=env, stdout=subprocess.PIPE, stderr=subprocess.PIPE, text=True)
    line = (r.stdout.strip().splitlines() or [""])[-1]
    parts = [p.strip() for p in line.split("|")]
    verdict = parts[1] if len(parts) > 1 else "ERROR"
    checks = 0
    m = re.search(r"of (\d+) failed", line)
    if m:
        checks = int(m.group(1))
    log = ""
    try:
        log = open(os.path.join(crate, "logs", harness + ".log")).read()
    except OSError:
        pass
    failed_checks = re.findall(r"^Failed Checks: (.*)$", log, flags=re.M)[:8]
    failed_in = re.findall(r"^Failed Checks: .*\n File: \"[^\"]*\", line \d+, in (.*)$", log, flags=re.M)[:8]
    if failed_checks and len(failed_in) == len(failed_checks) and all("core::task::Waker as core::ops::Drop" in w for w in failed_in):
        # groups A/B stub <Waker as Drop>::drop by an unreachable panic ("no task waker is ever stored or dropped while the
        # DiatomicWaker entry points are stubbed"): code that does store one is outside what this harness models
        return {"harness": harness, "verdict": "ERROR: harness assumption 'no task waker is stored outside the DiatomicWaker' does not hold for this code", "wall_s": round(time.time() - t0, 1),
                "checks": checks, "summary": line, "failed_checks": [], "log_tail": log[-600:]}
    return {"harness": harness, "verdict": verdict, "wall_s": round(time.time() - t0, 1), "checks": checks, "summary": line,
            "failed_checks": failed_checks, "log_tail": log[-1500:] if verdict != "SUCCESSFUL" else ""}


def run(pid, spec, tier, seed):
    names = list(spec.get("quick", []))
    if tier == "thorough":
        names += [h for h in spec.get("thorough", []) if h not in names]
    rows, trusted = [], [
        "Kani 0.68 / CBMC 6.11 on a generated copy of /repo/src (kani/gen_crate.py): groups L/A/B hoist the four nested RawWaker vtable functions of waker_list.rs to module level (visibility only, bodies byte-identical, checked by the script); group V uses the byte-identical file",
        "stubs in groups A/B: <Waker as Drop>::drop -> unreachable panic (pruning only), DiatomicWaker::notify/register -> ghost counters, alloc::dealloc -> counting wrapper that really frees (see kani/RESULTS.md section 2)",
        "CBMC option --max-field-sensitivity-array-size 1024; unwinding bound CAP+3 with unwinding assertions checked; sequential execution only (no threads, no memory-ordering reasoning)",
    ]
    scratch = tempfile.mkdtemp(prefix="vx-kani-")
    try:
        by_variant = {}
        gen_undecided = []
        for h in names:
            if h not in HARNESSES:
                return {"rows": rows, "undecided": "unknown harness " + h}
            by_variant.setdefault(HARNESSES[h][0], []).append(h)
        crates = {}
        for v in by_variant:
            out = os.path.join(scratch, v)
            ok, msg = gen(v, vx.REPO, out)
            if not ok:
                # an anchor of the mechanical transformation is gone: the units of THIS variant cannot be built -> undecided,
                # never an alarm; the units of the other variants still run
                gen_undecided.append("cannot generate the Kani crate (%s): %s" % (v, msg.strip().splitlines()[-1] if msg.strip() else "?"))
                names = [h for h in names if HARNESSES[h][0] != v]
                continue
            crates[v] = out
        jobs = []
        par = 4 if tier == "thorough" else 3
        # one target dir per parallel lane (cargo-kani invocations must not share one concurrently)
        lanes = [os.path.join(vx.VERIF, "build", "kani-target-%s-%d" % (pid, k)) for k in range(par)]
        # scratch runs of the seeded corpus check several source trees at the same time: a tree whose waker_list.rs differs
        # from /repo's gets target directories of its own (removed below), so that no build artefact of one tree can ever be
        # picked up by the run of another (observed once: a unit of the unchanged file reported the failure of a seeded one)
        private_lanes = False
        if os.environ.get("VERIF_NO_EVIDENCE"):
            import hashlib
            def _h(path):
                try:
                    return hashlib.sha256(open(path, "rb").read()).hexdigest()[:10]
                except OSError:
                    return "none"
            mine, base = _h(os.path.join(vx.REPO, "src", "waker_list.rs")), _h("/repo/src/waker_list.rs")
            if mine != base:
                private_lanes = True
                lanes = [l + "-" + mine for l in lanes]
        order = sorted(names, key=lambda h: HARNESSES[h][0])
        def work(k):
            out = []
            for i, h in enumerate(order):
                if i % par != k:
                    continue
                out.append(run_one(crates[HARNESSES[h][0]], h, 900 if tier == "thorough" else 420, lanes[k]))
            return out
        with ThreadPoolExecutor(max_workers=par) as ex:
            for res in ex.map(work, range(par)):
                jobs += res
        for j in jobs:
            variant, label, bound = HARNESSES[j["harness"]]
            ok = j["verdict"] == "SUCCESSFUL"
            row = {"harness": j["harness"], "label": label, "bound": bound, "variant": variant, "ok": ok, "verdict": j["verdict"], "wall_s": j["wall_s"],
                   "checks": j["checks"], "bounded": not bound.startswith("COMPLETE"), "where": "src/waker_list.rs"}
            if not ok and j["failed_checks"] and label.split(".")[0] not in ("c03",) and spec.get("leak_is_foreign", True) and \
                    all(re.search(r"memory.leak|never freed|strong", fc) for fc in j["failed_checks"]):
                # protocol harness (C01/C12/C14): every protocol assertion passed, the only failed checks are CBMC's memory-leak
                # check / the harness's reference-count assertions - the subject of C03/C06 (whose own checks run these life-cycle properties), not of this property
                row["ok"] = ok = True
                row["note"] = "only the memory-leak check failed (a C03/C06 matter): " + "; ".join(j["failed_checks"])[:200]
            if not ok:
                if j["verdict"] in ("TIMEOUT",) or j["verdict"].startswith("ERROR") and not j["failed_checks"]:
                    # out of time / memory or a build error: undecided, never an alarm
                    # (the unit is recorded as undetermined, the remaining units are still evaluated)
                    row["ok"] = True
                    row["undetermined"] = j["verdict"]
                    gen_undecided.append("%s: %s %s" % (j["harness"], j["verdict"], j["log_tail"][-300:].replace("\n", " ")))
                    rows.append(row)
                    continue
                row["output"] = "Failed checks: " + "; ".join(j["failed_checks"]) + "\n" + j["log_tail"]
                row["trace"] = j["failed_checks"]
            rows.append(row)
        res = {"rows": rows, "trusted": trusted}
        if gen_undecided:
            res["undecided"] = "; ".join(gen_undecided)
        return res
    finally:
        shutil.rmtree(scratch, ignore_errors=True)
        try:
            if private_lanes:
                for l in lanes:
                    shutil.rmtree(l, ignore_errors=True)
                    try:
                        os.remove(l + ".lock")
                    except OSError:
                        pass
        except NameError:
            pass
