use vstd::prelude::*;
verus! {

pub enum Poll<T> { Ready(T), Pending }
pub struct Context { pub id: usize }

pub struct G<F> { pub v: Vec<F>, pub cap: usize }

impl<F> G<F> {
    pub open spec fn wf(&self) -> bool { self.v.len() <= self.cap }
    pub open spec fn len_spec(&self) -> nat { self.v.len() as nat }
    pub fn new(cap: usize) -> (r: Self) ensures r.wf(), r.cap == cap, r.len_spec() == 0 { G { v: Vec::new(), cap } }
    pub fn capacity(&self) -> (r: usize) ensures r == self.cap { self.cap }
    pub fn try_push(&mut self, f: F) -> (r: Result<(), F>)
        requires old(self).wf()
        ensures final(self).wf(), final(self).cap == old(self).cap,
          r is Ok <==> old(self).len_spec() < old(self).cap,
          r is Ok ==> final(self).len_spec() == old(self).len_spec() + 1,
          r is Err ==> final(self).len_spec() == old(self).len_spec() && r->Err_0 == f,
    {
        if self.v.len() < self.cap { self.v.push(f); Ok(()) } else { Err(f) }
    }
    pub fn push(&mut self, f: F)
        requires old(self).wf(), old(self).len_spec() < old(self).cap
        ensures final(self).wf(), final(self).cap == old(self).cap, final(self).len_spec() == old(self).len_spec() + 1,
    {
        if self.try_push(f).is_err() {
            assert(false);
        }
    }
    pub fn poll_next(&mut self, cx: &mut Context) -> (r: Poll<Option<F>>)
        requires old(self).wf()
        ensures final(self).wf(), final(self).cap == old(self).cap,
            r matches Poll::Ready(Some(_)) ==> final(self).len_spec() + 1 == old(self).len_spec(),
            !(r matches Poll::Ready(Some(_))) ==> final(self).len_spec() == old(self).len_spec(),
            (r matches Poll::Ready(None)) <==> old(self).len_spec() == 0,
    {
        match self.v.pop() { Some(x) => Poll::Ready(Some(x)), None => Poll::Ready(None) }
    }
}

pub struct FU<F> { pub rem: usize, pub groups: Vec<G<F>>, pub poll_next: usize }

pub open spec fn sum_len<F>(gs: Seq<G<F>>) -> nat decreases gs.len() {
    if gs.len() == 0 { 0 } else { sum_len(gs.drop_last()) + gs.last().len_spec() }
}

impl<F> FU<F> {
    pub open spec fn wf(&self) -> bool {
        &&& forall|i: int| 0 <= i < self.groups.len() ==> (#[trigger] self.groups[i]).wf() && self.groups[i].cap > 0 && self.groups[i].cap < 0x1000_0000_0000
        &&& self.rem == sum_len(self.groups@)
    }

    pub fn push(&mut self, fut: F)
        requires old(self).wf(), old(self).rem < usize::MAX
        ensures final(self).wf(), final(self).rem == old(self).rem + 1
    {
        self.rem += 1;

        let last = match self.groups.last_mut() {
            Some(last) => last,
            None => {
                self.groups.push(G::new(32));
                self.groups
                    .last_mut()
                    .expect("group should have at least one entry")
            }
        };
        match last.try_push(fut) {
            Ok(()) => {}
            Err(future) => {
                let mut next = G::new(last.capacity() * 2);
                next.push(future);
                self.groups.push(next);
            }
        }
    }
}

} // verus!
fn main() {}
