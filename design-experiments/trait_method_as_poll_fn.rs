use vstd::prelude::*;
verus! {
pub enum Poll<T> { Ready(T), Pending }
pub struct Context { pub id: usize }

pub trait Future: Sized {
    type Output;
    spec fn terminated(&self) -> bool;
    spec fn polls(&self) -> nat;
    fn poll(&mut self, cx: &mut Context) -> (r: Poll<Self::Output>)
        requires !old(self).terminated()
        ensures final(self).polls() == old(self).polls() + 1, (r is Ready) <==> final(self).terminated();
}

pub struct Q<F> { pub tasks: Vec<Option<F>> }

#[verifier::prophetic]
pub open spec fn good_poll_fn<F: Future, O, P: Fn(&mut F, &mut Context) -> Poll<O>>(p: P) -> bool {
    &&& forall|t: &mut F, c: &mut Context| !(*t).terminated() ==> #[trigger] p.requires((t, c))
    &&& forall|t: &mut F, c: &mut Context, r: Poll<O>| #[trigger] p.ensures((t, c), r) ==>
          (*final(t)).polls() == (*t).polls() + 1 && ((r is Ready) <==> (*final(t)).terminated())
}

impl<F: Future> Q<F> {
    pub fn poll_one<O, P: Fn(&mut F, &mut Context) -> Poll<O>>(&mut self, cx: &mut Context, poll_fn: P) -> (r: Poll<O>)
        requires
            old(self).tasks.len() > 0, old(self).tasks[0] is Some, !old(self).tasks[0]->0.terminated(),
            good_poll_fn(poll_fn),
        ensures
            final(self).tasks.len() == old(self).tasks.len(), final(self).tasks[0] is Some,
            final(self).tasks[0]->0.polls() == old(self).tasks[0]->0.polls() + 1,
    {
        let task = self.tasks[0].as_mut().unwrap();
        poll_fn(task, cx)
    }

    pub fn poll_next(&mut self, cx: &mut Context) -> (r: Poll<F::Output>)
        requires
            old(self).tasks.len() > 0, old(self).tasks[0] is Some, !old(self).tasks[0]->0.terminated(),
        ensures
            final(self).tasks[0] is Some,
            final(self).tasks[0]->0.polls() == old(self).tasks[0]->0.polls() + 1,
    {
        self.poll_one(cx, F::poll)
    }
}
}
fn main() {}
