use vstd::prelude::*;
verus! {
global size_of usize == 8;

pub const MSB: usize = !(usize::MAX >> 1);

pub struct Wrapping<T>(pub T);

pub struct OrderWrapper<T> { pub data: T, pub index: usize }

// ---- trusted stub of alloc::collections::BinaryHeap (view: multiset-as-Seq, unordered) ----
#[verifier::external_body]
#[verifier::accept_recursive_types(T)]
pub struct BinaryHeap<T> { _p: core::marker::PhantomData<T> }

#[verifier::external_body]
#[verifier::accept_recursive_types(T)]
pub struct PeekMut<'a, T> { _p: core::marker::PhantomData<&'a mut T> }

impl<T> BinaryHeap<OrderWrapper<T>> {
    pub uninterp spec fn view(&self) -> Seq<OrderWrapper<T>>;

    #[verifier::external_body]
    pub fn peek_mut(&mut self) -> (r: Option<PeekMut<'_, OrderWrapper<T>>>)
        ensures
            r is None <==> old(self)@.len() == 0,
            // not popped: heap unchanged  (the PeekMut is dropped without pop)
    { unimplemented!() }

    #[verifier::external_body]
    pub fn push(&mut self, x: OrderWrapper<T>)
        ensures final(self)@ == old(self)@.push(x)
    { unimplemented!() }
}

pub open spec fn rel(i: usize, o: usize) -> usize { sub(i, o) }

proof fn lemma_rebase(i: usize, o: usize)
    ensures
        rel(i ^ MSB, o ^ MSB) == rel(i, o),
        (o & MSB == 0 && rel(i, o) < MSB) ==> i == o + rel(i, o),
{
    assert(MSB == 0x8000_0000_0000_0000usize) by { assert(!(0xffff_ffff_ffff_ffffusize >> 1usize) == 0x8000_0000_0000_0000usize) by (bit_vector); }
    assert(sub(i ^ 0x8000_0000_0000_0000usize, o ^ 0x8000_0000_0000_0000usize) == sub(i, o)) by (bit_vector);
    assert((o & 0x8000_0000_0000_0000usize == 0 && sub(i, o) < 0x8000_0000_0000_0000usize) ==> i == add(o, sub(i, o)) && add(o, sub(i,o)) >= o && add(o, sub(i,o)) >= sub(i,o)) by (bit_vector);
    if o & MSB == 0 && rel(i, o) < MSB { assert(o < 0x8000_0000_0000_0000usize) by (bit_vector) requires o & 0x8000_0000_0000_0000usize == 0; }
}

fn bump(x: &mut Wrapping<usize>)
    ensures final(x).0 == old(x).0.wrapping_add(1)
{
    x.0 = x.0.wrapping_add(1);
}

}
fn main() {}
verus! {
pub enum Poll<T> { Ready(T), Pending }

impl<'a, T> PeekMut<'a, OrderWrapper<T>> {
    pub uninterp spec fn top(&self) -> OrderWrapper<T>;
    pub uninterp spec fn heap_before(&self) -> Seq<OrderWrapper<T>>;
    #[verifier::external_body]
    pub fn pop(this: Self) -> (r: OrderWrapper<T>) ensures r == this.top() { unimplemented!() }
}
impl<'a, T> core::ops::Deref for PeekMut<'a, OrderWrapper<T>> {
    type Target = OrderWrapper<T>;
    #[verifier::external_body]
    fn deref(&self) -> (r: &OrderWrapper<T>) ensures *r == self.top() { unimplemented!() }
}

pub struct Q<T> { pub queued_outputs: BinaryHeap<OrderWrapper<T>>, pub next_outgoing_index: Wrapping<usize> }

impl<T> Q<T> {
    fn head(&mut self) -> (r: Poll<Option<T>>)
    {
        let this = &mut *self;
        if let Some(next_output) = this.queued_outputs.peek_mut() {
            if next_output.index == this.next_outgoing_index.0 {
                this.next_outgoing_index.0 = this.next_outgoing_index.0.wrapping_add(1);
                return Poll::Ready(Some(PeekMut::pop(next_output).data));
            }
        }
        Poll::Pending
    }
}
}
