use vstd::prelude::*;
verus! {

pub enum Poll<T> { Ready(T), Pending }

pub struct Context { pub id: usize }

pub trait Child: Sized {
    spec fn done(&self) -> bool;
    spec fn polls(&self) -> nat;
}

pub struct Q<F> { pub tasks: Vec<Option<F>> }

#[verifier::prophetic]
pub open spec fn good_poll_fn<F: Child, O, P: Fn(&mut F, &mut Context) -> Poll<O>>(p: P) -> bool {
    &&& forall|t: &mut F, c: &mut Context| !(*t).done() ==> #[trigger] p.requires((t, c))
    &&& forall|t: &mut F, c: &mut Context, r: Poll<O>| #[trigger] p.ensures((t, c), r) ==> 
          (*final(t)).polls() == (*t).polls() + 1 && ((r is Ready) <==> (*final(t)).done())
}

impl<F: Child> Q<F> {
    pub fn poll_one<O, P: Fn(&mut F, &mut Context) -> Poll<O>>(&mut self, cx: &mut Context, poll_fn: P) -> (r: Poll<O>)
        requires
            old(self).tasks.len() > 0,
            old(self).tasks[0] is Some,
            !old(self).tasks[0]->0.done(),
            good_poll_fn(poll_fn),
        ensures
            final(self).tasks.len() == old(self).tasks.len(),
            final(self).tasks[0] is Some,
            final(self).tasks[0]->0.polls() == old(self).tasks[0]->0.polls() + 1,
            (r is Ready) <==> final(self).tasks[0]->0.done(),
    {
        let task = self.tasks[0].as_mut().unwrap();
        let res = poll_fn(task, cx);
        res
    }
}

} // verus!
fn main() {}
