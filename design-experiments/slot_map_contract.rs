use vstd::prelude::*;
verus! {

pub enum Slot<F> {
    Occupied(F),
    NextFree(usize),
}

pub struct PinSlotMap<F> {
    pub slots: Vec<Slot<F>>,
    pub free_head: usize,
    pub filled: usize,
}

#[verifier::external_body]
pub fn unreachable_unchecked() -> !
    requires false
{ loop {} }

/// `s` lists the free slots in free-list order.
pub open spec fn is_chain<F>(slots: Seq<Slot<F>>, head: usize, s: Seq<usize>) -> bool {
    &&& s.no_duplicates()
    &&& forall|k: int| 0 <= k < s.len() ==> (#[trigger] s[k]) < slots.len()
    &&& forall|k: int| 0 <= k < s.len() ==> (#[trigger] slots[s[k] as int]) is NextFree
    &&& forall|k: int| 0 <= k < s.len() - 1 ==> (#[trigger] slots[s[k] as int])->NextFree_0 == s[k + 1]
    &&& s.len() > 0 ==> slots[s[s.len() - 1] as int]->NextFree_0 == slots.len() && head == s[0]
    &&& s.len() == 0 ==> head == slots.len()
    &&& forall|i: int| 0 <= i < slots.len() && (#[trigger] slots[i]) is NextFree ==> s.contains(i as usize)
}


pub proof fn lemma_nodup_bound(s: Seq<usize>, n: nat)
    requires
        s.no_duplicates(),
        forall|j: int| 0 <= j < s.len() ==> (#[trigger] s[j]) < n,
    ensures
        s.len() <= n,
    decreases n,
{
    if n == 0 {
        if s.len() > 0 { assert(s[0] < n); }
    } else if exists|j: int| 0 <= j < s.len() && s[j] == (n - 1) as usize {
        let j = choose|j: int| 0 <= j < s.len() && s[j] == (n - 1) as usize;
        let s2 = s.remove(j);
        assert forall|a: int| 0 <= a < s2.len() implies (#[trigger] s2[a]) < (n - 1) as nat by {
            if a < j { assert(s2[a] == s[a]); assert(s[a] != s[j]); } else { assert(s2[a] == s[a + 1]); assert(s[a + 1] != s[j]); }
        }
        assert forall|a: int, b: int| 0 <= a < s2.len() && 0 <= b < s2.len() && a != b implies s2[a] != s2[b] by {
            let a1 = if a < j { a } else { a + 1 };
            let b1 = if b < j { b } else { b + 1 };
            assert(s2[a] == s[a1] && s2[b] == s[b1]);
        }
        lemma_nodup_bound(s2, (n - 1) as nat);
    } else {
        assert forall|a: int| 0 <= a < s.len() implies (#[trigger] s[a]) < (n - 1) as nat by {
            assert(s[a] < n);
        }
        lemma_nodup_bound(s, (n - 1) as nat);
    }
}

/// pigeonhole: a duplicate-free sequence of indices below n that misses `k` has fewer than n entries
pub proof fn lemma_chain_len(s: Seq<usize>, n: nat, k: usize)
    requires
        s.no_duplicates(),
        forall|j: int| 0 <= j < s.len() ==> (#[trigger] s[j]) < n,
        k < n,
        !s.contains(k),
    ensures
        s.len() < n,
{
    let s2 = s.push(k);
    assert forall|a: int, b: int| 0 <= a < s2.len() && 0 <= b < s2.len() && a != b implies s2[a] != s2[b] by {
        if a == s.len() { assert(s.contains(s[b])); } else if b == s.len() { assert(s.contains(s[a])); }
    }
    lemma_nodup_bound(s2, n);
}

impl<F> PinSlotMap<F> {
    pub open spec fn wf(&self) -> bool {
        &&& exists|s: Seq<usize>| is_chain(self.slots@, self.free_head, s) && self.filled + s.len() == self.slots.len()
    }
    pub open spec fn occupied(&self, i: int) -> bool {
        0 <= i < self.slots.len() && self.slots[i] is Occupied
    }

    fn get_slot(&mut self, key: usize) -> (r: Option<&mut Slot<F>>)
        ensures
            key >= old(self).slots.len() ==> r.is_none() && final(self).slots@ == old(self).slots@ && final(self).free_head == old(self).free_head && final(self).filled == old(self).filled,
            key < old(self).slots.len() ==> r.is_some()
                && *r.unwrap() == old(self).slots[key as int]
                && final(self).slots@ == old(self).slots@.update(key as int, *final(r.unwrap()))
                && final(self).free_head == old(self).free_head
                && final(self).filled == old(self).filled,
    {
        let slots = &mut self.slots;
        let slot = slots.get_mut(key)?;
        Some(slot)
    }

    pub fn insert_with<Arg>(
        &mut self,
        arg: Arg,
        mut f: impl FnMut(Arg) -> F,
    ) -> (res: Result<usize, Arg>)
        requires
            old(self).wf(),
            f.requires((arg,)),
        ensures
            final(self).wf(),
            final(self).slots.len() == old(self).slots.len(),
            // accepted iff not full
            (res is Ok) <==> old(self).filled < old(self).slots.len(),
            res is Err ==> res->Err_0 == arg && final(self).slots@ == old(self).slots@ && final(self).free_head == old(self).free_head && final(self).filled == old(self).filled,
            res is Ok ==> {
                let k = res->Ok_0 as int;
                &&& !old(self).occupied(k) && final(self).occupied(k)
                &&& final(self).filled == old(self).filled + 1
                &&& forall|i: int| i != k ==> final(self).slots@[i] == old(self).slots@[i]
            },
    {
        let key = self.free_head;
        let Some(mut slot) = self.get_slot(key) else {
            return Err(arg);
        };

        let Slot::NextFree(next_free) = *slot else {
            unreachable_unchecked()
        };

        *slot = Slot::Occupied(f(arg));

        self.free_head = next_free;
        self.filled += 1;

        proof {
            let s = choose|s: Seq<usize>| is_chain(old(self).slots@, old(self).free_head, s) && old(self).filled + s.len() == old(self).slots.len();
            assert(s.len() > 0);
            assert(s[0] == key);
            let s2 = s.drop_first();
            assert forall|k: int| 0 <= k < s2.len() implies s2[k] == s[k + 1] by {}
            assert(s2.no_duplicates());
            assert forall|k: int| 0 <= k < s2.len() implies (#[trigger] self.slots@[s2[k] as int]) is NextFree by {
                assert(s[k + 1] != s[0]);
                assert(old(self).slots@[s[k + 1] as int] is NextFree);
            }
            assert forall|k: int| 0 <= k < s2.len() - 1 implies (#[trigger] self.slots@[s2[k] as int])->NextFree_0 == s2[k + 1] by {
                assert(s[k + 1] != s[0]);
                assert(old(self).slots@[s[k + 1] as int]->NextFree_0 == s[k + 2]);
            }
            assert forall|i: int| 0 <= i < self.slots@.len() && (#[trigger] self.slots@[i]) is NextFree implies s2.contains(i as usize) by {
                assert(i != key);
                assert(old(self).slots@[i] is NextFree);
                assert(s.contains(i as usize));
                let j = choose|j: int| 0 <= j < s.len() && s[j] == i as usize;
                assert(j != 0);
                assert(s2[j - 1] == i as usize);
            }
            if s2.len() > 0 {
                assert(s[s.len() - 1] != s[0]);
                assert(s2[s2.len() - 1] == s[s.len() - 1]);
                assert(old(self).slots@[s[0] as int]->NextFree_0 == s[1]);
            } else {
                assert(s.len() == 1);
            }
            assert(is_chain(self.slots@, self.free_head, s2));
        }
        Ok(key)
    }

    /// Removes a key from the slot map
    pub fn remove(&mut self, key: usize)
        requires old(self).wf(),
        ensures
            final(self).wf(),
            final(self).slots.len() == old(self).slots.len(),
            !final(self).occupied(key as int),
            final(self).filled == old(self).filled - (if old(self).occupied(key as int) { 1int } else { 0 }),
            forall|i: int| i != key ==> final(self).occupied(i) == old(self).occupied(i) && 
               (old(self).occupied(i) ==> final(self).slots@[i] == old(self).slots@[i])
    {
        let free_head = self.free_head;
        let Some(mut slot) = self.get_slot(key) else {
            proof { assert(self.slots@ =~= old(self).slots@); }
            return;
        };
        if let Slot::NextFree(_) = &*slot {
            proof {
                assert(self.slots@ =~= old(self).slots@);
            }
            return; // don't update if this slot is already free
        }
        proof {
            let s = choose|s: Seq<usize>| is_chain(old(self).slots@, old(self).free_head, s) && old(self).filled + s.len() == old(self).slots.len();
            assert(!s.contains(key)) by {
                if s.contains(key) { let j = choose|j: int| 0 <= j < s.len() && s[j] == key; assert(old(self).slots@[s[j] as int] is NextFree); }
            }
            lemma_chain_len(s, old(self).slots.len() as nat, key);
        }
        *slot = Slot::NextFree(free_head);
        self.free_head = key;
        self.filled -= 1;
        proof {
            let s = choose|s: Seq<usize>| is_chain(old(self).slots@, old(self).free_head, s) && old(self).filled + s.len() == old(self).slots.len();
            let s2 = seq![key] + s;
            assert forall|k: int| 1 <= k < s2.len() implies s2[k] == s[k - 1] by {}
            assert(s2[0] == key);
            assert(s2.no_duplicates()) by {
                assert forall|a: int, b: int| 0 <= a < s2.len() && 0 <= b < s2.len() && a != b implies s2[a] != s2[b] by {
                    if a == 0 { assert(s.contains(s[b - 1])); } else if b == 0 { assert(s.contains(s[a - 1])); } else { assert(s[a-1] != s[b-1]); }
                }
            }
            assert forall|i: int| 0 <= i < self.slots@.len() && (#[trigger] self.slots@[i]) is NextFree implies s2.contains(i as usize) by {
                if i == key as int { assert(s2[0] == key); } else {
                    assert(old(self).slots@[i] is NextFree);
                    assert(s.contains(i as usize));
                    let j = choose|j: int| 0 <= j < s.len() && s[j] == i as usize;
                    assert(s2[j + 1] == i as usize);
                }
            }
            assert(is_chain(self.slots@, self.free_head, s2));
        }
    }
}

} // verus!
fn main() {}
