// Kani harnesses that use ONLY the real API: `core::task::Waker` values obtained from `get`/`pop`, real vtable
// (indirect) calls, real `DiatomicWaker`, NO stubs, NO hoisting needed (generate with `gen_crate.py --no-hoist
// --harness harness_api_nostub.rs`).  They are tractable only with
//     --cbmc-args --max-field-sensitivity-array-size 1024
// (see RESULTS.md) and only for CONCRETE operation sequences (plus symbolic choices that do not involve a free).
#[cfg(kani)]
#[allow(dead_code, static_mut_refs)]
mod kani_api {
    use super::*;
    use core::task::{RawWaker, RawWakerVTable};

    // ---- a counting task waker; id = data pointer value (1 or 2)
    static mut TW_WAKES: [usize; 3] = [0; 3];
    static mut TW_CLONES: [usize; 3] = [0; 3];
    static mut TW_DROPS: [usize; 3] = [0; 3];
    unsafe fn tw_clone(p: *const ()) -> RawWaker {
        unsafe { TW_CLONES[p as usize] += 1 };
        RawWaker::new(p, &TW_VTABLE)
    }
    unsafe fn tw_wake(p: *const ()) {
        unsafe {
            TW_WAKES[p as usize] += 1;
            TW_DROPS[p as usize] += 1;
        }
    }
    unsafe fn tw_wake_by_ref(p: *const ()) {
        unsafe { TW_WAKES[p as usize] += 1 };
    }
    unsafe fn tw_drop(p: *const ()) {
        unsafe { TW_DROPS[p as usize] += 1 };
    }
    static TW_VTABLE: RawWakerVTable = RawWakerVTable::new(tw_clone, tw_wake, tw_wake_by_ref, tw_drop);
    /// the harness' own handle is wrapped in ManuallyDrop, so TW_CLONES/TW_DROPS count only what WakerList does
    fn task_waker(id: usize) -> ManuallyDrop<Waker> {
        ManuallyDrop::new(unsafe { Waker::from_raw(RawWaker::new(id as *const (), &TW_VTABLE)) })
    }

    unsafe fn strong(hdr: *mut WakerHeader) -> usize {
        unsafe { (*hdr).strong.load(Ordering::Relaxed) }
    }
    unsafe fn flag(slot: *mut WakerItem) -> bool {
        unsafe { *(*slot).wake_lock.lock() }
    }

    /// clone / clone of clone / drop handle / wake_by_ref / wake / drop, all through core::task::Waker.
    /// (essentially the sequence that timed out after 10 min in the earlier session)
    #[kani::proof]
    #[kani::unwind(5)]
    fn v_lifecycle_after_handle_drop() {
        let list = WakerList::new(2);
        let hdr = list.ptr.as_ptr();
        let slot1 = unsafe { list.slice_start().add(1) };
        let w = list.get(1);
        assert!(unsafe { strong(hdr) } == 1); // get() does not own a reference
        let c: Waker = (*w).clone();
        let c2 = c.clone();
        assert!(c2.will_wake(&w));
        assert!(unsafe { strong(hdr) } == 3);
        drop(list);
        assert!(unsafe { strong(hdr) } == 2);
        assert!(!unsafe { flag(slot1) });
        c.wake_by_ref();
        assert!(unsafe { flag(slot1) });
        c.wake(); // consumes c
        assert!(unsafe { strong(hdr) } == 1);
        c2.wake_by_ref();
        assert!(unsafe { flag(slot1) });
        drop(c2); // last owner: frees (memory-leak-check + CBMC free checks)
    }

    /// cap 3 (the smallest cap where layout(cap) != layout(cap+1), see l_layout_size_facts): a child waker of the
    /// last slot is the last owner; Kani's __rust_dealloc model checks "allocated size matches its layout".
    #[kani::proof]
    #[kani::unwind(6)]
    fn v_lifecycle_cap3_child_frees() {
        let list = WakerList::new(3);
        let c: Waker = (*list.get(2)).clone();
        drop(list);
        c.wake_by_ref();
        drop(c);
    }

    /// handle is the last owner while child wakers came and went; wakers of both slots
    #[kani::proof]
    #[kani::unwind(5)]
    fn v_lifecycle_handle_last() {
        let list = WakerList::new(2);
        let hdr = list.ptr.as_ptr();
        let a: Waker = (*list.get(0)).clone();
        let b: Waker = (*list.get(1)).clone();
        a.wake_by_ref();
        b.wake();
        assert!(unsafe { strong(hdr) } == 2);
        match unsafe { list.pop() } {
            ReadySlot::Ready((i, w)) => {
                assert!(i == 0);
                assert!(w.will_wake(&a));
                let d: Waker = (*w).clone();
                assert!(unsafe { strong(hdr) } == 3);
                drop(d);
            }
            _ => panic!(),
        }
        drop(a);
        assert!(unsafe { strong(hdr) } == 1);
        assert!(matches!(unsafe { list.pop() }, ReadySlot::Ready((1, _))));
        assert!(matches!(unsafe { list.pop() }, ReadySlot::None));
        drop(list);
    }

    // NOT INCLUDED (intractable, see RESULTS.md): any symbolic choice between operations -- even between ops on
    // concrete `Waker` variables with no free inside the branches -- re-creates the recursion blow-up, because
    // after the control-flow merge CBMC no longer knows that the header's `Option<Waker>` slots are `None`.
    // Symbolic sequences are covered by harness_waker_list.rs (direct calls + pruning stub) instead.

    /// real DiatomicWaker + real task wakers: who gets woken, and that the task-waker clones held by the header are
    /// released when the block is freed.
    /// DiatomicWaker semantics (diatomic-waker 0.2.0): `notify` wakes the registered waker and UNREGISTERS it, so a
    /// second flag transition without a new `register` reaches `notify` but wakes nobody; FuturesUnorderedBounded
    /// calls register at the start of every poll.
    #[kani::proof]
    #[kani::unwind(5)]
    fn v_notify_real_diatomic_one_shot() {
        let mut list = WakerList::new(2);
        let t1 = task_waker(1);
        let c0: Waker = (*list.get(0)).clone();
        unsafe {
            c0.wake_by_ref(); // nobody registered: enqueued, nobody woken
            assert!(TW_WAKES[1] == 0);
            assert!(matches!(list.pop(), ReadySlot::Ready((0, _))));

            list.register(&t1);
            assert!(TW_CLONES[1] >= 1 && TW_DROPS[1] < TW_CLONES[1]); // t1 is held
            c0.wake_by_ref(); // false -> true: t1 woken
            assert!(TW_WAKES[1] == 1);
            c0.wake_by_ref(); // already set: no notify
            list.push(1); // push never notifies
            assert!(TW_WAKES[1] == 1);
            assert!(matches!(list.pop(), ReadySlot::Ready((0, _))));
            assert!(matches!(list.pop(), ReadySlot::Ready((1, _))));
            c0.wake_by_ref(); // transition, but diatomic unregistered t1 on notify: nobody woken
            assert!(TW_WAKES[1] == 1);
        }
        drop(c0);
        drop(list); // last owner: header dropped -> stored task waker dropped
        unsafe {
            assert!(TW_CLONES[1] >= 1 && TW_DROPS[1] == TW_CLONES[1]); // every clone of t1 released exactly once
        }
    }

    /// register(t1) then register(t2): the next transition wakes t2 only
    #[kani::proof]
    #[kani::unwind(5)]
    fn v_register_replaces_task_waker() {
        let mut list = WakerList::new(2);
        let (t1, t2) = (task_waker(1), task_waker(2));
        let c1: Waker = (*list.get(1)).clone();
        unsafe {
            list.register(&t1);
            list.register(&t1); // same waker again
            assert!(TW_CLONES[1] >= 1 && TW_DROPS[1] < TW_CLONES[1]);
            list.register(&t2); // replaces t1
            assert!(TW_CLONES[2] >= 1 && TW_DROPS[2] < TW_CLONES[2]);
            c1.wake_by_ref(); // false -> true: goes to t2 only
            assert!(TW_WAKES[1] == 0 && TW_WAKES[2] == 1);
        }
        drop(list);
        drop(c1); // last owner
        unsafe {
            assert!(TW_DROPS[1] == TW_CLONES[1] && TW_DROPS[2] == TW_CLONES[2]);
        }
    }

    /// same, but the LAST owner is a child waker dropped after the handle: the header (and the task wakers it stores)
    /// must be dropped by drop_waker.
    #[kani::proof]
    #[kani::unwind(5)]
    fn v_child_waker_frees_header_with_task_waker() {
        let mut list = WakerList::new(2);
        let t1 = task_waker(1);
        let c1: Waker = (*list.get(1)).clone();
        list.register(&t1);
        drop(list);
        unsafe {
            assert!(TW_CLONES[1] >= 1 && TW_DROPS[1] < TW_CLONES[1]); // the allocation lives on and still holds t1
            c1.wake_by_ref(); // after the handle is gone: still enqueues + wakes the task
            assert!(TW_WAKES[1] == 1);
            c1.wake(); // already queued; releases the last reference
            assert!(TW_WAKES[1] == 1);
            assert!(TW_DROPS[1] == TW_CLONES[1]); // every clone of t1 released exactly once
        }
    }
}
