#!/bin/bash
# usage: run_harness.sh <crate-dir> <harness-name> [timeout-seconds] [extra cargo-kani args...]
# prints one summary line:  harness | verdict | wall s | peak RSS MB | #checks | #failed
# full log in <crate-dir>/logs/<harness>.log
set -u
CRATE=$1; H=$2; TMO=${3:-600}; shift; shift; shift || true
mkdir -p "$CRATE/logs"
LOG="$CRATE/logs/$H.log"
cd "$CRATE" || exit 2
ulimit -v 14000000
CBMC_EXTRA=${CBMC_EXTRA---max-field-sensitivity-array-size 1024}
ZC=""; case "$H" in c_*) ZC="-Z function-contracts"; MOD=kani_contracts;; v_*) MOD=kani_api;; *) MOD=kani_harness;; esac
CARGO_NET_OFFLINE=true /usr/bin/time -f "WALL=%e MAXRSS_KB=%M" timeout "$TMO" \
  cargo kani -Z stubbing -Z mem-predicates -Z unstable-options $ZC --harness "waker_list::$MOD::$H" --exact "$@" \
  --cbmc-args --memory-leak-check $CBMC_EXTRA > "$LOG" 2>&1
RC=$?
WALL=$(grep -o 'WALL=[0-9.]*' "$LOG" | tail -1 | cut -d= -f2)
RSS=$(grep -o 'MAXRSS_KB=[0-9]*' "$LOG" | tail -1 | cut -d= -f2)
VERDICT=$(grep -o 'VERIFICATION:- [A-Z]*' "$LOG" | tail -1 | cut -d' ' -f2)
[ $RC -eq 124 ] && VERDICT=TIMEOUT
[ -z "$VERDICT" ] && VERDICT="ERROR(rc=$RC)"
SUMMARY=$(grep -o '\*\* [0-9]* of [0-9]* failed' "$LOG" | tail -1)
FAILED=$(grep '^Failed Checks:' "$LOG" | sort | uniq -c | sort -rn | head -3 | sed 's/Failed Checks: //' | tr '\n' ';')
echo "$H | $VERDICT | ${WALL}s | $(( ${RSS:-0} / 1024 )) MB | $SUMMARY | $FAILED"
