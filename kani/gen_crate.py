#!/usr/bin/env python3
"""gen_crate.py <outdir> [--repo /repo] [--harness FILE] [--no-hoist] [--contracts] [--mutate mN]

Builds a scratch crate for Kani from the CURRENT working tree of the repo:

  1. copies <repo>/src/**  verbatim to <outdir>/src/, <repo>/Cargo.lock to <outdir>/Cargo.lock
  2. writes <outdir>/Cargo.toml = <repo>/Cargo.toml minus [dev-dependencies] and [[bench]] tables,
     plus a [lints.rust] entry that silences `unexpected_cfgs` for cfg(kani)
  3. (unless --no-hoist) applies the HOIST transformation to the copy of src/waker_list.rs  (see below)
  4. (with --contracts) inserts Kani contract attributes (`#[cfg_attr(kani, kani::requires/ensures/modifies(..))]`)
     directly in front of the signature line of 5 leaf functions (see CONTRACTS below) and also appends
     harness_contracts.rs (the `proof_for_contract` harnesses)
  5. (with --mutate mN) applies one of the negative-control mutations (see MUTATIONS below)
  6. appends the harness file (default: harness_waker_list.rs next to this script) to src/waker_list.rs

Typical uses:
    gen_crate.py out                                                   # hoisted copy + harness_waker_list.rs
    gen_crate.py out --no-hoist --harness harness_api_nostub.rs        # byte-identical copy + stub-free harnesses
    gen_crate.py out --contracts                                       # + contracts + harness_contracts.rs
    gen_crate.py out --mutate m1                                       # negative control

Nothing under <repo> is written.  Every textual anchor is asserted to occur EXACTLY ONCE; if upstream
changes the text the script aborts instead of silently producing something else.

HOIST (the only change made to the code under verification in the default configuration)
----------------------------------------------------------------------------------------
In `mod slot`, the function

    pub(super) fn waker(ptr: *const WakerItem) -> ManuallyDrop<Waker> {
        static VTABLE: ... ;
        unsafe fn clone_waker(..) {..}
        unsafe fn wake(..) {..}
        unsafe fn wake_by_ref(..) {..}
        unsafe fn drop_waker(..) {..}

        let raw_waker = RawWaker::new(ptr.cast(), VTABLE);
        unsafe { ManuallyDrop::new(Waker::from_raw(raw_waker)) }
    }

contains five nested items.  The byte range that starts right after the line
`    pub(super) fn waker(ptr: *const WakerItem) -> ManuallyDrop<Waker> {\n` and ends right before the line
`        let raw_waker = RawWaker::new(ptr.cast(), VTABLE);\n` is CUT and re-inserted, byte-identical
(indentation included), immediately BEFORE the `pub(super) fn waker` line, i.e. at module level of `mod slot`.
Then exactly six tokens are changed, visibility only:
    `        unsafe fn clone_waker(`  -> `        pub(super) unsafe fn clone_waker(`
    `        unsafe fn wake(`         -> `        pub(super) unsafe fn wake(`
    `        unsafe fn wake_by_ref(`  -> `        pub(super) unsafe fn wake_by_ref(`
    `        unsafe fn drop_waker(`   -> `        pub(super) unsafe fn drop_waker(`
    `    unsafe fn meta_raw(`         -> `    pub(super) unsafe fn meta_raw(`
    `        static VTABLE: &RawWakerVTable =` -> `        pub(super) static VTABLE: &RawWakerVTable =`
Nested fn items do not capture anything and name resolution of `VTABLE`, `meta_ref`, `meta_raw`,
`super::drop_inner` is the same at module level of `mod slot` (fn items do not open a module scope),
so the program is semantically unchanged; the function bodies are byte-identical (checked by the script:
the multiset of lines of the file, after undoing the six `pub(super) ` insertions, is unchanged).
"""
import argparse
import hashlib
import os
import re
import shutil
import sys

HERE = os.path.dirname(os.path.abspath(__file__))


def once(text, anchor):
    n = text.count(anchor)
    assert n == 1, "anchor must occur exactly once (found %d): %r" % (n, anchor)
    return text.index(anchor)


def replace_once(text, old, new):
    once(text, old)
    return text.replace(old, new)


# --------------------------------------------------------------------------- hoist
WAKER_FN = "    pub(super) fn waker(ptr: *const WakerItem) -> ManuallyDrop<Waker> {\n"
RAW_WAKER_LINE = "        let raw_waker = RawWaker::new(ptr.cast(), VTABLE);\n"
VIS = [
    ("        unsafe fn clone_waker(", "        pub(super) unsafe fn clone_waker("),
    ("        unsafe fn wake(", "        pub(super) unsafe fn wake("),
    ("        unsafe fn wake_by_ref(", "        pub(super) unsafe fn wake_by_ref("),
    ("        unsafe fn drop_waker(", "        pub(super) unsafe fn drop_waker("),
    ("    unsafe fn meta_raw(", "    pub(super) unsafe fn meta_raw("),
    ("        static VTABLE: &RawWakerVTable =", "        pub(super) static VTABLE: &RawWakerVTable ="),
]


def hoist(src):
    a = once(src, WAKER_FN)
    b = once(src, RAW_WAKER_LINE)
    assert a < b
    start = a + len(WAKER_FN)
    block = src[start:b]
    assert "static VTABLE: &RawWakerVTable" in block
    for old, _ in VIS[:4]:
        once(block, old)
    out = src[:a] + block + WAKER_FN + src[b:]
    for old, new in VIS:
        out = replace_once(out, old, new)
    # self-check: undoing the visibility edits gives the same multiset of lines as the original
    undo = out
    for old, new in VIS:
        undo = undo.replace(new, old)
    assert sorted(undo.split("\n")) == sorted(src.split("\n")), "hoist changed more than intended"
    return out


# --------------------------------------------------------------------------- contracts
# Each entry: (signature line anchor, attribute lines inserted directly in front of it).
CONTRACTS = [
    (
        "fn slice_offset() -> usize {\n",
        "#[cfg_attr(kani, kani::ensures(|r: &usize| *r >= core::mem::size_of::<WakerHeader>()"
        " && *r % core::mem::align_of::<WakerItem>() == 0"
        " && *r < core::mem::size_of::<WakerHeader>() + core::mem::align_of::<WakerItem>()))]\n",
    ),
    (
        "    fn inc_strong(&self) {\n",
        "    #[cfg_attr(kani, kani::requires(self.strong.load(Ordering::Relaxed) <= isize::MAX as usize))]\n"
        "    #[cfg_attr(kani, kani::modifies(&self.strong))]\n"
        "    #[cfg_attr(kani, kani::ensures(|_| self.strong.load(Ordering::Relaxed)"
        " == old(self.strong.load(Ordering::Relaxed)) + 1))]\n",
    ),
    (
        "    fn dec_strong(&self) -> bool {\n",
        "    #[cfg_attr(kani, kani::requires(self.strong.load(Ordering::Relaxed) >= 1))]\n"
        "    #[cfg_attr(kani, kani::modifies(&self.strong))]\n"
        "    #[cfg_attr(kani, kani::ensures(|r: &bool| self.strong.load(Ordering::Relaxed) + 1"
        " == old(self.strong.load(Ordering::Relaxed))"
        " && *r == (old(self.strong.load(Ordering::Relaxed)) == 1)))]\n",
    ),
    (
        "    fn layout(cap: usize) -> Layout {\n",
        "    #[cfg_attr(kani, kani::requires(cap <= kani_harness::MAX_CAP_NO_PANIC))]\n"
        "    #[cfg_attr(kani, kani::ensures(|l: &Layout| l.align() == core::mem::align_of::<WakerHeader>()"
        " && l.size() % l.align() == 0"
        " && l.size() >= slice_offset() + (cap + 1) * core::mem::size_of::<WakerItem>()))]\n",
    ),
    (   # anchor is the HOISTED (pub(super)) signature: --contracts requires hoisting
        "    pub(super) unsafe fn meta_raw(ptr: *mut WakerItem) -> *mut WakerHeader {\n",
        "    #[cfg_attr(kani, kani::requires(kani::mem::can_dereference(ptr)"
        " && kani::mem::same_allocation(ptr, unsafe { ptr.sub((*ptr).index).cast::<u8>().sub(slice_offset()) }.cast::<WakerItem>())))]\n"
        "    #[cfg_attr(kani, kani::ensures(|r: &*mut WakerHeader| (*r as usize) + slice_offset()"
        " + unsafe { (*ptr).index } * core::mem::size_of::<WakerItem>() == ptr as usize))]\n",
    ),
]


def contracts(src):
    for anchor, attrs in CONTRACTS:
        i = once(src, anchor)
        src = src[:i] + attrs + src[i:]
    return src


# --------------------------------------------------------------------------- mutations
# applied AFTER hoisting (anchors are chosen such that they are valid on the hoisted text)
MUTATIONS = {
    # clone_waker without inc_strong()
    "m1": [("            unsafe { meta_ref(waker.cast()).inc_strong() };\n", "")],
    # dec_strong reports "last owner" one step too early
    "m2": [("        if old_size != 1 {\n            return false;", "        if old_size != 2 {\n            return false;")],
    # dec_strong never reports "last owner" (leak)
    "m2b": [("        if old_size != 1 {\n            return false;", "        if old_size != 0 {\n            return false;")],
    # wake_by_ref without notify
    "m3": [("                meta.waker.notify();\n", "")],
    # pop does not clear wake_lock
    "m4": [("                *slot.wake_lock.lock() = false;\n", "")],
    # push enqueues regardless of prev
    "m5": [("        if !prev {\n            queue.enqueue(unsafe { NonNull::new_unchecked(slot) });\n        }\n",
            "        let _ = prev;\n        queue.enqueue(unsafe { NonNull::new_unchecked(slot) });\n")],
    # drop_waker frees with wrong layout
    "m6": [("super::drop_inner(meta_raw(waker.cast::<WakerItem>().cast_mut()), meta.len);",
            "super::drop_inner(meta_raw(waker.cast::<WakerItem>().cast_mut()), meta.len + 1);")],
    # meta_raw off by one
    "m7": [("        let slice_start = unsafe { ptr.sub(index) };\n",
            "        let slice_start = unsafe { ptr.sub(index + 1) };\n")],
    # wake_by_ref enqueues regardless of prev (extra, analogous to m5 on the waker side)
    "m8": [("            if !prev {\n                let meta = unsafe { meta_ref(slot) };",
            "            if !prev || true {\n                let meta = unsafe { meta_ref(slot) };")],
    # wake (by value) forgets to release its reference (leak)
    "m9": [("                wake_by_ref(waker);\n                drop_waker(waker);\n",
            "                wake_by_ref(waker);\n")],
}


def mutate(src, name):
    for old, new in MUTATIONS[name]:
        src = replace_once(src, old, new)
    return src


# --------------------------------------------------------------------------- Cargo.toml
def strip_manifest(text):
    """drop the [dev-dependencies] and [[bench]] tables, keep everything else verbatim"""
    out, skip = [], False
    for line in text.splitlines(keepends=True):
        m = re.match(r"^\s*(\[\[?[^\]]+\]\]?)\s*$", line)
        if m:
            skip = m.group(1) in ("[dev-dependencies]", "[[bench]]")
        if not skip:
            out.append(line)
    s = "".join(out)
    assert "[dependencies]" in s and "dev-dependencies" not in s and "[[bench]]" not in s
    s += '\n[lints.rust]\nunexpected_cfgs = { level = "allow", check-cfg = ["cfg(kani)"] }\n'
    return s


def main():
    ap = argparse.ArgumentParser()
    ap.add_argument("outdir")
    ap.add_argument("--repo", default="/repo")
    ap.add_argument("--harness", default=os.path.join(HERE, "harness_waker_list.rs"))
    ap.add_argument("--contracts-harness", default=os.path.join(HERE, "harness_contracts.rs"))
    ap.add_argument("--expect-sha256", default=None, help="abort unless the copied src/waker_list.rs has this hash")
    ap.add_argument("--no-hoist", action="store_true")
    ap.add_argument("--contracts", action="store_true")
    ap.add_argument("--mutate", choices=sorted(MUTATIONS), default=None)
    args = ap.parse_args()

    out = os.path.abspath(args.outdir)
    assert not out.startswith(os.path.abspath(args.repo) + os.sep) and not out.startswith("/verif")
    os.makedirs(out, exist_ok=True)
    if os.path.exists(os.path.join(out, "src")):
        shutil.rmtree(os.path.join(out, "src"))
    shutil.copytree(os.path.join(args.repo, "src"), os.path.join(out, "src"))
    shutil.copy(os.path.join(args.repo, "Cargo.lock"), os.path.join(out, "Cargo.lock"))
    with open(os.path.join(args.repo, "Cargo.toml")) as f:
        manifest = strip_manifest(f.read())
    with open(os.path.join(out, "Cargo.toml"), "w") as f:
        f.write(manifest)

    wl = os.path.join(out, "src", "waker_list.rs")
    with open(wl) as f:
        src = f.read()
    sha = hashlib.sha256(src.encode()).hexdigest()
    with open(os.path.join(out, "SOURCE_SHA256"), "w") as f:
        f.write(sha + "  src/waker_list.rs (as copied from %s, before any transformation)\n" % args.repo)
    if args.expect_sha256 and sha != args.expect_sha256:
        sys.exit("src/waker_list.rs has sha256 %s, expected %s" % (sha, args.expect_sha256))
    if not args.no_hoist:
        src = hoist(src)
    if args.contracts:
        assert not args.no_hoist
        src = contracts(src)
    if args.mutate:
        src = mutate(src, args.mutate)
    with open(args.harness) as f:
        harness = f.read()
    src += "\n// ===== appended by gen_crate.py (not part of the crate under verification) =====\n" + harness
    if args.contracts:
        with open(args.contracts_harness) as f:
            src += "\n" + f.read()
    with open(wl, "w") as f:
        f.write(src)
    print("generated %s (hoist=%s contracts=%s mutate=%s harness=%s source sha256=%s)"
          % (out, not args.no_hoist, args.contracts, args.mutate, args.harness, sha))


if __name__ == "__main__":
    main()
