// Kani harnesses for src/waker_list.rs.  This text is APPENDED to a scratch copy of src/waker_list.rs by
// gen_crate.py, so `super::*` reaches every private item of the file under verification.
//
// Naming:  a_*  = group A (life cycle / memory safety, property C03)
//          b_*  = group B (sequential producer/consumer protocol, properties C01/C12/C14)
//          l_*  = loop-free layout lemmas
//
// Stubs (all via `-Z stubbing`), see RESULTS.md for the rationale:
//   * `<core::task::Waker as Drop>::drop -> stub_waker_drop_unreachable`  (body: panic!)  -- a pure PRUNING stub:
//     no harness below ever owns a `core::task::Waker`, and the DiatomicWaker in the header never stores one
//     (register is stubbed / never called), so `Waker::drop` is unreachable in the real program; the stub only
//     stops CBMC from exploring `drop_glue<Option<Waker>> -> Waker::drop -> (fn ptr) -> {wake,wake_by_ref,drop_waker}`
//     recursively.  Because the stub panics, verification FAILS if it is ever reached, i.e. the claim
//     "unreachable" is itself checked.
//   * `DiatomicWaker::notify -> stub_notify`, `DiatomicWaker::register -> stub_register`: ghost counters.
#[cfg(kani)]
#[allow(dead_code, static_mut_refs)]
mod kani_harness {
    use super::*;
    use core::task::{RawWaker, RawWakerVTable};
    extern crate std; // only for std::alloc::System in stub_dealloc (Kani always links std)

    /// `repeat!(n, stmt)`: n textual copies of stmt (n = 0..=4), used instead of loops so that the harness' own
    /// iteration count does not force a larger global unwind bound on the code under test.
    macro_rules! repeat {
        (0, $e:expr) => {};
        (1, $e:expr) => { $e; };
        (2, $e:expr) => { $e; $e; };
        (3, $e:expr) => { $e; $e; $e; };
        (4, $e:expr) => { $e; $e; $e; $e; };
    }

    // ------------------------------------------------------------------ ghost state written by the stubs
    pub static mut NOTIFY_COUNT: usize = 0;
    /// address of the DiatomicWaker `notify` was last called on
    pub static mut NOTIFY_SELF: usize = 0;
    /// data pointer of the task waker passed to the last `register`, 0 = none
    pub static mut REGISTERED: usize = 0;
    pub static mut REGISTER_SELF: usize = 0;
    /// per task-waker-id notification counters (id = data pointer value 1 or 2)
    pub static mut NOTIFIED: [usize; 3] = [0; 3];

    pub fn stub_notify(this: &DiatomicWaker) {
        unsafe {
            NOTIFY_COUNT += 1;
            NOTIFY_SELF = this as *const DiatomicWaker as usize;
            if REGISTERED < 3 {
                NOTIFIED[REGISTERED] += 1;
            }
        }
    }
    pub unsafe fn stub_register(this: &DiatomicWaker, waker: &Waker) {
        unsafe {
            REGISTERED = waker.data() as usize;
            REGISTER_SELF = this as *const DiatomicWaker as usize;
        }
    }
    // ghost record of calls to alloc::alloc::dealloc
    pub static mut DEALLOC_COUNT: usize = 0;
    pub static mut DEALLOC_PTR: usize = 0;
    pub static mut DEALLOC_SIZE: usize = 0;
    pub static mut DEALLOC_ALIGN: usize = 0;
    /// replacement for `alloc::alloc::dealloc`: records the call, then REALLY frees (System allocator -> libc
    /// `free` -> CBMC's model), so CBMC's use-after-free / double-free tracking stays active.
    pub unsafe fn stub_dealloc(ptr: *mut u8, layout: Layout) {
        unsafe {
            DEALLOC_COUNT += 1;
            DEALLOC_PTR = ptr as usize;
            DEALLOC_SIZE = layout.size();
            DEALLOC_ALIGN = layout.align();
            std::alloc::GlobalAlloc::dealloc(&std::alloc::System, ptr, layout);
        }
    }
    /// "the allocation was released exactly once, by `dealloc(header_ptr, layout(cap))`"
    fn freed_exactly_once(hdr: *mut WakerHeader, cap: usize) -> bool {
        let l = WakerList::layout(cap);
        unsafe {
            DEALLOC_COUNT == 1 && DEALLOC_PTR == hdr as usize && DEALLOC_SIZE == l.size() && DEALLOC_ALIGN == l.align()
        }
    }
    fn not_freed() -> bool {
        unsafe { DEALLOC_COUNT == 0 }
    }
    pub fn stub_waker_drop_unreachable(_this: &mut Waker) {
        panic!("a core::task::Waker was dropped: the harness assumption 'no task waker is ever stored' is wrong");
    }

    // a task waker that is never invoked (all DiatomicWaker entry points are stubbed); only its data pointer
    // (the id) is observed by stub_register.
    unsafe fn tw_clone(p: *const ()) -> RawWaker {
        RawWaker::new(p, &TW_VTABLE)
    }
    unsafe fn tw_nop(_p: *const ()) {}
    static TW_VTABLE: RawWakerVTable = RawWakerVTable::new(tw_clone, tw_nop, tw_nop, tw_nop);
    fn task_waker(id: usize) -> ManuallyDrop<Waker> {
        ManuallyDrop::new(unsafe { Waker::from_raw(RawWaker::new(id as *const (), &TW_VTABLE)) })
    }

    // ------------------------------------------------------------------ observers
    /// (NOTIFIED[0], NOTIFIED[1], NOTIFIED[2]) -- a tuple, because `[usize; 3] == [..]` compiles to memcmp, whose
    /// 24-iteration loop would force a large global unwind bound
    fn notified() -> (usize, usize, usize) {
        unsafe { (NOTIFIED[0], NOTIFIED[1], NOTIFIED[2]) }
    }
    unsafe fn strong(hdr: *mut WakerHeader) -> usize {
        unsafe { (*hdr).strong.load(Ordering::Relaxed) }
    }
    pub fn strong_of(h: &WakerHeader) -> usize {
        h.strong.load(Ordering::Relaxed)
    }
    /// current value of the wake_lock flag, read WITHOUT taking the spin lock (`SpinMutex::get_mut`; the harness is
    /// single threaded and holds no guard at this point).  Reading it through `.lock()` works too but adds two
    /// retry loops per slot per step to the symbolic execution.
    unsafe fn flag(slot: *mut WakerItem) -> bool {
        unsafe { *(*slot).wake_lock.get_mut() }
    }
    /// only usable on live allocations: Kani's predicate itself fails on a freed pointer
    fn allocated(hdr: *mut WakerHeader) -> bool {
        kani::mem::can_dereference(hdr as *const u8)
    }

    // NOTE on symbolic slot indices (measured, see RESULTS.md):
    //   * `let j: usize = kani::any(); assume(j < CAP)`            -> SAT encoding > 13 GB (byte accesses at symbolic
    //     offsets into the allocation)
    //   * j = phi of constants, ONE call site `step(op, j)`          -> cap 2, 1 symbolic step: 142 s / 2.8 GB
    //   * one call site PER CONSTANT j (`Life::sym`, `Proto::sym`)   -> cap 2, 1 symbolic step:  30 s / 0.7 GB
    // so every pointer handed to the code under test has a constant offset on each symbolic-execution path.

    // ================================================================== layout lemmas (loop free)
    /// largest cap for which `layout(cap)` does not panic is not assumed; instead the harness mirrors the three
    /// `unwrap`s of `layout` and only continues where none of them fires.
    pub const MAX_CAP_NO_PANIC: usize =
        (isize::MAX as usize - 2 * core::mem::size_of::<WakerHeader>()) / core::mem::size_of::<WakerItem>() - 2;

    /// For EVERY cap: usize (fully symbolic, no bound) for which `WakerList::layout(cap)` returns:
    ///  offset computed by `Layout::extend` == `slice_offset()`, size covers header + cap+1 items, alignment is
    ///  the max of both alignments, slice_offset is a multiple of align_of<WakerItem>.
    #[kani::proof]
    fn l_layout_lemma_all_caps() {
        let cap: usize = kani::any();
        let item = Layout::new::<WakerItem>();
        // mirror of the panicking paths of `layout`; on every path that survives, `layout(cap)` is panic free
        let padded = item.pad_to_align();
        let alloc_size = match cap.checked_add(1).and_then(|n| padded.size().checked_mul(n)) {
            Some(s) => s,
            None => return,
        };
        let slice_layout = match Layout::from_size_align(alloc_size, item.align()) {
            Ok(l) => l,
            Err(_) => return,
        };
        let (ext, offset) = match Layout::new::<WakerHeader>().extend(slice_layout) {
            Ok(x) => x,
            Err(_) => return,
        };
        let l = WakerList::layout(cap);
        assert!(l == ext.pad_to_align());
        assert!(offset == slice_offset());
        assert!(slice_offset() % core::mem::align_of::<WakerItem>() == 0);
        assert!(slice_offset() >= core::mem::size_of::<WakerHeader>());
        assert!(l.size() >= slice_offset() + (cap + 1) * core::mem::size_of::<WakerItem>());
        assert!(l.align() >= core::mem::align_of::<WakerHeader>());
        assert!(l.align() >= core::mem::align_of::<WakerItem>());
        assert!(l.size() % l.align() == 0);
        assert!(l.size() > 0);
    }

    /// `layout(cap)` is panic free for every cap <= MAX_CAP_NO_PANIC (the panics themselves are Kani checks).
    #[kani::proof]
    fn l_layout_no_panic_below_bound() {
        let cap: usize = kani::any();
        kani::assume(cap <= MAX_CAP_NO_PANIC);
        let _ = WakerList::layout(cap);
    }

    /// meta_raw(slice_start + i) == header pointer for every i <= cap (stub slot included), concrete cap = 3.
    #[kani::proof]
    #[kani::unwind(6)]
    #[kani::stub(<core::task::Waker as core::ops::Drop>::drop, stub_waker_drop_unreachable)]
    fn l_meta_raw_roundtrip_cap3() {
        let list = WakerList::new(3);
        let i: usize = kani::any();
        kani::assume(i <= 3);
        let slot = unsafe { list.slice_start().add(i) };
        assert!(unsafe { (*slot).index } == i);
        assert!(unsafe { slot::meta_raw(slot) } == list.ptr.as_ptr());
        assert!(list.slice_start() as usize == list.ptr.as_ptr() as usize + slice_offset());
    }

    // ================================================================== group A: life cycle
    /// new(cap); drop  for cap = 0,1,2,3.  NO dealloc stub here: Kani's own `__rust_dealloc` model checks
    /// "allocated size matches its layout" + double free, `--memory-leak-check` checks that it is freed.
    macro_rules! new_drop {
        ($name:ident, $cap:expr, $unw:expr) => {
            #[kani::proof]
            #[kani::unwind($unw)]
            #[kani::stub(<core::task::Waker as core::ops::Drop>::drop, stub_waker_drop_unreachable)]
            fn $name() {
                let list = WakerList::new($cap);
                let hdr = list.ptr.as_ptr();
                assert!(allocated(hdr));
                assert!(unsafe { strong(hdr) } == 1);
                assert!(unsafe { (*hdr).len } == $cap);
                drop(list);
            }
        };
    }
    new_drop!(a_new_drop_cap0, 0, 3);
    new_drop!(a_new_drop_cap1, 1, 4);
    new_drop!(a_new_drop_cap2, 2, 5);
    new_drop!(a_new_drop_cap3, 3, 6);

    /// The `Waker` handed out by `get(j)` / `pop()` has data pointer == address of slot j and the child vtable.
    #[kani::proof]
    #[kani::unwind(5)]
    #[kani::stub(<core::task::Waker as core::ops::Drop>::drop, stub_waker_drop_unreachable)]
    fn a_waker_points_at_slot() {
        // both slots, one call per constant index
        if kani::any() {
            waker_points_at_slot(0)
        } else {
            waker_points_at_slot(1)
        }
    }
    fn waker_points_at_slot(j: usize) {
        let list = WakerList::new(2);
        let w = list.get(j);
        assert!(w.data() == unsafe { list.slice_start().add(j) } as *const ());
        assert!(core::ptr::eq(w.vtable(), slot::VTABLE));
        unsafe { list.push(j) };
        match unsafe { list.pop() } {
            ReadySlot::Ready((i, w2)) => {
                assert!(i == j);
                assert!(w2.data() == w.data());
                assert!(core::ptr::eq(w2.vtable(), slot::VTABLE));
            }
            _ => panic!("expected Ready"),
        }
        // get/pop do not take a reference
        assert!(unsafe { strong(list.ptr.as_ptr()) } == 1);
    }

    /// Generic life-cycle driver.
    ///
    /// Ghost model: `list.is_some()` (the WakerList handle is alive) and `owned[j]` (number of owned child wakers
    /// of slot j, i.e. results of clone_waker that were not yet consumed by wake / drop_waker).
    /// Operations (each on a slot j < CAP):
    ///   0 clone        needs a source waker of slot j: the borrowed one from get(j) (handle alive) or an owned one
    ///   1 wake_by_ref  same precondition
    ///   2 wake         consumes an owned waker of slot j
    ///   3 drop         consumes an owned waker of slot j
    ///   4 drop handle
    ///   5 pop          (handle alive) consumer side runs in between
    /// An op whose precondition does not hold is a no-op (so every symbolic op value is a legal API use).
    /// After EVERY step, with owners = handle + sum(owned):
    ///   owners > 0  => dealloc not called yet, allocation still dereferenceable, strong == owners
    ///   owners == 0 => dealloc was called exactly once with (header pointer, layout(CAP)); the run stops
    /// plus all of CBMC's pointer checks on the code under test (use after free, double free, out of bounds).
    struct Life<const CAP: usize, const GHOST: bool> {
        list: Option<WakerList>,
        hdr: *mut WakerHeader,
        slots: *mut WakerItem,
        owned: [usize; CAP],
        owners: usize,
        done: bool,
    }
    impl<const CAP: usize, const GHOST: bool> Life<CAP, GHOST> {
        fn new() -> Self {
            let list = WakerList::new(CAP);
            let hdr = list.ptr.as_ptr();
            let slots = list.slice_start();
            Life { list: Some(list), hdr, slots, owned: [0; CAP], owners: 1, done: false }
        }
        fn sym(&mut self) {
            let op: u8 = kani::any();
            kani::assume(op < 6);
            // one call site per CONSTANT slot index (see any_slot for why)
            let mut j = 0;
            while j + 1 < CAP {
                if kani::any() {
                    self.step(op, j);
                    return;
                }
                j += 1;
            }
            self.step(op, j);
        }
        fn step(&mut self, op: u8, j: usize) {
            if self.done {
                return;
            }
            let p = unsafe { self.slots.add(j) } as *const ();
            let have_source = self.list.is_some() || self.owned[j] > 0;
            match op {
                0 if have_source => {
                    let rw = unsafe { slot::clone_waker(p) };
                    // the clone is again a child waker of the same slot
                    assert!(rw == RawWaker::new(p, slot::VTABLE));
                    self.owned[j] += 1;
                    self.owners += 1;
                }
                1 if have_source => unsafe { slot::wake_by_ref(p) },
                2 if self.owned[j] > 0 => {
                    unsafe { slot::wake(p) };
                    self.owned[j] -= 1;
                    self.owners -= 1;
                }
                3 if self.owned[j] > 0 => {
                    unsafe { slot::drop_waker(p) };
                    self.owned[j] -= 1;
                    self.owners -= 1;
                }
                4 if self.list.is_some() => {
                    drop(self.list.take());
                    self.owners -= 1;
                }
                5 if self.list.is_some() => {
                    let _ = unsafe { self.list.as_ref().unwrap().pop() };
                }
                _ => {}
            }
            if self.owners > 0 {
                assert!(!GHOST || not_freed());
                assert!(allocated(self.hdr));
                assert!(unsafe { strong(self.hdr) } == self.owners);
            } else {
                assert!(!GHOST || freed_exactly_once(self.hdr, CAP));
                self.done = true;
            }
        }
        /// End of a run.  If owners are left the harness releases the block ITSELF (raw free, not through the code
        /// under test, no claim attached) so that `--memory-leak-check` reports exactly the leaks on paths where the
        /// owner count reached 0.  Releasing the leftovers through drop_waker would add one more inlined copy of
        /// drop_inner per leftover owner, which is what makes these harnesses expensive.
        fn finish(mut self) {
            if !self.done {
                core::mem::forget(self.list.take());
                unsafe { std::alloc::GlobalAlloc::dealloc(&std::alloc::System, self.hdr.cast(), WakerList::layout(CAP)) };
            }
        }
    }

    macro_rules! lifecycle_harness {
        ($name:ident, $cap:expr, $unw:expr, [$(($op:expr, $j:expr)),*], $nsym:tt) => {
            #[kani::proof]
            #[kani::unwind($unw)]
            #[kani::stub(diatomic_waker::primitives::DiatomicWaker::notify, stub_notify)]
            #[kani::stub(<core::task::Waker as core::ops::Drop>::drop, stub_waker_drop_unreachable)]
            #[kani::stub(alloc::alloc::dealloc, stub_dealloc)]
            fn $name() {
                let mut l = Life::<$cap, true>::new();
                $( l.step($op, $j); )*
                repeat!($nsym, l.sym());
                l.finish();
            }
        };
    }
    /// same driver WITHOUT the dealloc stub (Kani's own __rust_dealloc model: object size == layout size)
    macro_rules! lifecycle_harness_kani_dealloc {
        ($name:ident, $cap:expr, $unw:expr, [$(($op:expr, $j:expr)),*], $nsym:tt) => {
            #[kani::proof]
            #[kani::unwind($unw)]
            #[kani::stub(diatomic_waker::primitives::DiatomicWaker::notify, stub_notify)]
            #[kani::stub(<core::task::Waker as core::ops::Drop>::drop, stub_waker_drop_unreachable)]
            fn $name() {
                let mut l = Life::<$cap, false>::new();
                $( l.step($op, $j); )*
                repeat!($nsym, l.sym());
                l.finish();
            }
        };
    }
    // unwind = CAP + 3 covers: `new` loop (CAP), MpscQueue::drop walk (<= CAP + 2 nodes), drop_glue of [_; 2] (2),
    // SpinMutex::lock retry loops (1); the harness itself is loop free apart from any_slot (CAP - 1).
    // fully symbolic short sequences
    lifecycle_harness!(a_lifecycle_cap1_sym1, 1, 4, [], 1);
    lifecycle_harness!(a_lifecycle_cap1_sym2, 1, 4, [], 2);
    lifecycle_harness!(a_lifecycle_cap1_sym3, 1, 4, [], 3);
    lifecycle_harness!(a_lifecycle_cap2_sym2, 2, 5, [], 2);
    lifecycle_harness!(a_lifecycle_cap2_sym1, 2, 5, [], 1);
    // concrete prefix + symbolic tail
    //   clone(0), drop handle, then symbolic steps: all waker operations happen AFTER the handle is gone
    lifecycle_harness!(a_lifecycle_after_handle_drop_sym2, 2, 5, [(0, 0), (4, 0)], 2);
    //   clone(0), clone(1), drop handle, then symbolic steps
    lifecycle_harness!(a_lifecycle_two_slots_after_handle_drop_sym2, 2, 5, [(0, 0), (0, 1), (4, 0)], 2);
    //   clone(0), clone(0) [clone of a clone], wake_by_ref(0), then symbolic steps
    lifecycle_harness!(a_lifecycle_two_clones_sym2, 2, 5, [(0, 0), (0, 0), (1, 0)], 2);
    //   fully concrete: clone(0), wake_by_ref(0), drop handle, wake_by_ref(0), wake(0)
    //   [last owner is a by-value wake, the slot is still queued when the block is freed]
    lifecycle_harness!(a_lifecycle_last_owner_wake_queued, 2, 5, [(0, 0), (1, 0), (4, 0), (1, 0), (2, 0)], 0);
    //   fully concrete version of the sequence that timed out in the earlier session when it went through
    //   core::task::Waker: clone, drop list, wake_by_ref, wake [frees]
    lifecycle_harness!(a_lifecycle_concrete_old_timeout, 2, 5, [(0, 1), (4, 0), (1, 1), (2, 1)], 0);
    lifecycle_harness_kani_dealloc!(a_lifecycle_cap2_sym2_kani_dealloc, 2, 5, [], 2);
    //   cap 3, fully concrete, last owner is a child waker.  cap 3 matters: align_of::<WakerHeader>() is 128
    //   (cordyceps pads the queue head to a cache line), so layout(cap).size() is rounded up to a multiple of 128 and
    //   layout(2) == layout(3) -- a "wrong capacity by one" bug in drop_waker is invisible at cap 2, visible at cap 3
    //   (layout(3).size() != layout(4).size()).  Run once with the ghost dealloc record and once with Kani's model.
    lifecycle_harness!(a_lifecycle_cap3_waker_frees, 3, 6, [(0, 2), (0, 0), (4, 0), (3, 0), (1, 2), (2, 2)], 0);
    lifecycle_harness_kani_dealloc!(a_lifecycle_cap3_waker_frees_kani_dealloc, 3, 6,
        [(0, 2), (0, 0), (4, 0), (3, 0), (1, 2), (2, 2)], 0);
    #[kani::proof]
    fn l_layout_size_facts() {
        // documentation of the concrete numbers on this target (x86_64, debug_assertions on)
        assert!(core::mem::align_of::<WakerHeader>() == 128);
        assert!(core::mem::size_of::<WakerItem>() == 32);
        assert!(slice_offset() == core::mem::size_of::<WakerHeader>());
        assert!(WakerList::layout(2).size() == WakerList::layout(3).size());
        assert!(WakerList::layout(3).size() != WakerList::layout(4).size());
    }

    // ================================================================== group B: sequential protocol
    /// Ghost model: flag[j], FIFO queue of slots (array + head/tail), notify counter.
    /// Ops: 0 push(j)   1 wake_by_ref(j) (direct call of the vtable fn on the slot pointer)   2 pop()
    ///      3 wake(j) by value on a fresh clone (clone_waker + wake): same protocol effect as wake_by_ref
    /// After every op: the real wake_lock of EVERY slot == model flag, NOTIFY_COUNT == model, notify was called on
    /// the header's DiatomicWaker, pop() returned the model's FIFO head / None, refcount is 1 again.
    /// `finish` drains the queue, which must yield exactly the model's remaining content in order, then None.
    /// QMAX = capacity of the model queue = max number of ops in the run.
    struct Proto<const CAP: usize, const QMAX: usize> {
        list: WakerList,
        hdr: *mut WakerHeader,
        slots: *mut WakerItem,
        dw: usize,
        mflag: [bool; CAP],
        mq: [usize; QMAX],
        qh: usize,
        qt: usize,
        mnotify: usize,
    }
    impl<const CAP: usize, const QMAX: usize> Proto<CAP, QMAX> {
        fn new() -> Self {
            let list = WakerList::new(CAP);
            let hdr = list.ptr.as_ptr();
            let slots = list.slice_start();
            let dw = unsafe { ptr::addr_of!((*hdr).waker) } as usize;
            Proto { list, hdr, slots, dw, mflag: [false; CAP], mq: [0; QMAX], qh: 0, qt: 0, mnotify: 0 }
        }
        fn sym(&mut self) {
            // symbolic ops are push / wake_by_ref / pop; WAKE (by value) only appears in concrete prefixes: it is
            // `wake_by_ref; drop_waker` and each symbolic occurrence adds an inlined copy of drop_inner (expensive)
            let op: u8 = kani::any();
            kani::assume(op < 3);
            // one call site per CONSTANT slot index (see any_slot for why)
            let mut j = 0;
            while j + 1 < CAP {
                if kani::any() {
                    self.step(op, j);
                    return;
                }
                j += 1;
            }
            self.step(op, j);
        }
        fn model_set(&mut self, j: usize) -> bool {
            if self.mflag[j] {
                return false;
            }
            self.mflag[j] = true;
            self.mq[self.qt] = j;
            self.qt += 1;
            true
        }
        fn step(&mut self, op: u8, j: usize) {
            let p = unsafe { self.slots.add(j) } as *const ();
            match op {
                0 => {
                    unsafe { self.list.push(j) };
                    self.model_set(j);
                }
                1 | 3 => {
                    if op == 1 {
                        unsafe { slot::wake_by_ref(p) };
                    } else {
                        unsafe {
                            let _ = slot::clone_waker(p);
                            slot::wake(p);
                        }
                    }
                    if self.model_set(j) {
                        self.mnotify += 1;
                        assert!(unsafe { NOTIFY_SELF } == self.dw);
                    }
                }
                _ => match unsafe { self.list.pop() } {
                    ReadySlot::Ready((i, w)) => {
                        assert!(self.qh < self.qt);
                        assert!(i == self.mq[self.qh]);
                        assert!(w.data() == unsafe { self.slots.add(i) } as *const ());
                        self.qh += 1;
                        self.mflag[i] = false;
                    }
                    ReadySlot::None => assert!(self.qh == self.qt),
                    ReadySlot::Inconsistent => panic!("Inconsistent is impossible without concurrency"),
                },
            }
            self.check();
        }
        fn check(&self) {
            let mut s = 0;
            while s < CAP {
                assert!(unsafe { flag(self.slots.add(s)) } == self.mflag[s]);
                s += 1;
            }
            assert!(unsafe { NOTIFY_COUNT } == self.mnotify);
            assert!(unsafe { strong(self.hdr) } == 1);
        }
        /// drain: at most CAP slots can be queued
        fn finish(mut self) {
            let mut n = 0;
            while n < CAP {
                if self.qh < self.qt {
                    match unsafe { self.list.pop() } {
                        ReadySlot::Ready((i, _)) => {
                            assert!(i == self.mq[self.qh]);
                            self.mflag[i] = false;
                            self.qh += 1;
                        }
                        _ => panic!("queued slot lost"),
                    }
                }
                n += 1;
            }
            assert!(self.qh == self.qt);
            assert!(matches!(unsafe { self.list.pop() }, ReadySlot::None));
            self.check();
        }
    }

    macro_rules! protocol_harness {
        ($name:ident, $cap:expr, $unw:expr, [$(($op:expr, $j:expr)),*], $nsym:tt) => {
            #[kani::proof]
            #[kani::unwind($unw)]
            #[kani::stub(diatomic_waker::primitives::DiatomicWaker::notify, stub_notify)]
            #[kani::stub(<core::task::Waker as core::ops::Drop>::drop, stub_waker_drop_unreachable)]
            fn $name() {
                let mut p = Proto::<$cap, 12>::new();
                $( p.step($op, $j); )*
                repeat!($nsym, p.sym());
                p.finish();
            }
        };
    }
    const PUSH: u8 = 0;
    const WBR: u8 = 1;
    const POP: u8 = 2;
    const WAKE: u8 = 3;
    // fully symbolic short runs from the initial state
    protocol_harness!(b_protocol_cap1_sym3, 1, 4, [], 3);
    protocol_harness!(b_protocol_cap2_sym2, 2, 5, [], 2);
    // cap 2 has 5 abstract protocol states (queue = [], [0], [1], [0,1], [1,0]; flag[j] <=> j queued).  Each is
    // reached by a concrete prefix (two different histories for [] and [0], because the intrusive queue's stub node
    // sits at a different place), then EVERY op on EVERY slot is applied symbolically (1 or 2 steps), then drained.
    protocol_harness!(b_step_from_q0_sym2, 2, 5, [(PUSH, 0)], 2);
    protocol_harness!(b_step_from_q1_sym2, 2, 5, [(WBR, 1)], 2);
    protocol_harness!(b_step_from_q01_sym2, 2, 5, [(PUSH, 0), (WBR, 1)], 2);
    protocol_harness!(b_step_from_q10_sym1, 2, 5, [(WAKE, 1), (PUSH, 0)], 1);
    protocol_harness!(b_step_from_empty_after_pops_sym1, 2, 5, [(PUSH, 0), (POP, 0), (POP, 0)], 1);
    protocol_harness!(b_step_from_q0_after_pop_sym1, 2, 5, [(WBR, 1), (PUSH, 0), (POP, 0)], 1);
    //  cap 3: wake_by_ref(2), push(0), wake(1), pop [->2], then symbolic ops
    protocol_harness!(b_protocol_cap3_prefix4_sym1, 3, 6, [(WBR, 2), (PUSH, 0), (WAKE, 1), (POP, 0)], 1);
    //  push/pop only needs no vtable call at all: fully concrete long run (repeated push between pops, re-push
    //  after pop, pop on empty)
    protocol_harness!(b_protocol_cap3_pushpop_concrete, 3, 6,
        [(PUSH, 1), (PUSH, 1), (PUSH, 2), (POP, 0), (PUSH, 1), (PUSH, 0), (POP, 0), (POP, 0), (POP, 0), (POP, 0)], 0);
    //  repeated wakes between two pops enqueue (and notify) once: fully concrete
    protocol_harness!(b_protocol_cap2_repeated_wakes_concrete, 2, 5,
        [(WBR, 1), (WBR, 1), (WAKE, 1), (PUSH, 1), (POP, 0), (POP, 0), (WBR, 1), (POP, 0)], 0);

    //  C03: the queued flag is what guarantees the safety contract of the intrusive queue (a node is never linked while it
    //  is linked): slot 0 woken, slot 1 woken behind it, then the OWNER marks slot 0 again (push of an already queued slot,
    //  as after the reuse of a slot whose stale waker fired): both entries still come out, each exactly once
    protocol_harness!(b_push_of_queued_slot_links_once, 2, 5,
        [(WBR, 0), (WBR, 1), (PUSH, 0), (POP, 0), (POP, 0), (POP, 0)], 0);
    protocol_harness!(b_push_of_queued_slot_links_once_rev, 2, 5,
        [(WBR, 1), (WBR, 0), (PUSH, 1), (PUSH, 1), (POP, 0), (POP, 0), (POP, 0)], 0);

    /// register(w1); transitions notify w1; register(w2); transitions notify w2 only; repeated wakes and
    /// push() never notify.  (register/notify are the STUBS: what is checked is that WakerList::register forwards
    /// the waker to the header's DiatomicWaker and that wake_by_ref calls notify on that same object exactly on
    /// false->true transitions.)
    #[kani::proof]
    #[kani::unwind(6)]
    #[kani::stub(diatomic_waker::primitives::DiatomicWaker::notify, stub_notify)]
    #[kani::stub(diatomic_waker::primitives::DiatomicWaker::register, stub_register)]
    #[kani::stub(<core::task::Waker as core::ops::Drop>::drop, stub_waker_drop_unreachable)]
    fn b_register_and_notify_target() {
        // both slot assignments, one call per constant index
        if kani::any() {
            register_and_notify_target(0)
        } else {
            register_and_notify_target(1)
        }
    }
    fn register_and_notify_target(j: usize) {
        let mut list = WakerList::new(2);
        let hdr = list.ptr.as_ptr();
        let slots = list.slice_start();
        let dw = unsafe { ptr::addr_of!((*hdr).waker) } as usize;
        let (w1, w2) = (task_waker(1), task_waker(2));
        let p = unsafe { slots.add(j) } as *const ();
        let q = unsafe { slots.add(1 - j) } as *const ();
        unsafe {
            list.register(&w1);
            assert!(REGISTERED == 1 && REGISTER_SELF == dw);
            slot::wake_by_ref(p); // false -> true
            assert!(notified() == (0, 1, 0) && NOTIFY_SELF == dw);
            slot::wake_by_ref(p); // already set
            assert!(notified() == (0, 1, 0));
            list.register(&w2);
            assert!(REGISTERED == 2 && REGISTER_SELF == dw);
            slot::wake_by_ref(p); // still set
            assert!(notified() == (0, 1, 0));
            slot::wake_by_ref(q); // other slot: false -> true, goes to w2
            assert!(notified() == (0, 1, 1));
            let _ = list.pop(); // p
            list.push(j); // push never notifies
            assert!(notified() == (0, 1, 1));
            let _ = list.pop(); // q
            let _ = list.pop(); // p again
            slot::wake_by_ref(p);
            assert!(notified() == (0, 1, 2));
            assert!(NOTIFY_COUNT == 3);
        }
    }
}
