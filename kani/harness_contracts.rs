// `#[kani::proof_for_contract]` harnesses for the contracts inserted by `gen_crate.py --contracts`.
// Run with `-Z function-contracts` (run_harness.sh passes it when the harness name starts with `c_`).
#[cfg(kani)]
#[allow(dead_code)]
mod kani_contracts {
    use super::*;

    fn stub_item() -> WakerItem {
        WakerItem { index: 0, wake_lock: SpinMutex::new(false), links: Links::new_stub() }
    }
    /// a free-standing WakerHeader with a symbolic reference count, its queue uses `stub` (a local of the harness);
    /// never dropped (ManuallyDrop) so that no drop glue is involved.
    fn any_header(stub: &mut WakerItem) -> ManuallyDrop<WakerHeader> {
        ManuallyDrop::new(WakerHeader {
            strong: AtomicUsize::new(kani::any()),
            len: 0,
            waker: DiatomicWaker::new(),
            queue: unsafe { MpscQueue::new_with_stub(NonNull::from(stub)) },
        })
    }

    #[kani::proof_for_contract(slice_offset)]
    fn c_slice_offset() {
        slice_offset();
    }

    #[kani::proof_for_contract(WakerHeader::inc_strong)]
    fn c_inc_strong() {
        let mut stub = stub_item();
        let h = any_header(&mut stub);
        h.inc_strong();
    }

    #[kani::proof_for_contract(WakerHeader::dec_strong)]
    fn c_dec_strong() {
        let mut stub = stub_item();
        let h = any_header(&mut stub);
        let _ = h.dec_strong();
    }

    #[kani::proof_for_contract(WakerList::layout)]
    fn c_layout() {
        let cap: usize = kani::any();
        let _ = WakerList::layout(cap);
    }

    #[kani::proof_for_contract(slot::meta_raw)]
    #[kani::unwind(6)]
    #[kani::stub(<core::task::Waker as core::ops::Drop>::drop, kani_harness::stub_waker_drop_unreachable)]
    fn c_meta_raw() {
        let list = WakerList::new(3);
        let i: usize = kani::any();
        kani::assume(i <= 3);
        let _ = unsafe { slot::meta_raw(list.slice_start().add(i)) };
    }
}
