//! vx-extract: mechanical extraction of the real function bodies of /repo into one Verus file.
//!
//! The extractor never re-types code: every function is emitted as the *source text* of the
//! function in /repo plus a list of byte-range edits, each produced by one of the documented
//! rewrite rules (T1..T15, see DESIGN.md 3.1).  Every edit is recorded in map.json so that the
//! difference between the verified text and the text that runs is auditable per run.
//! Contracts come from sidecar files (contracts/*.vspec) and are spliced at structural positions.

use proc_macro2::{LineColumn, Span, TokenStream};
use serde_json::json;
use std::collections::{BTreeMap, BTreeSet, HashMap};
use std::fmt::Write as _;
use std::path::{Path, PathBuf};
use syn::spanned::Spanned;
use syn::visit::{self, Visit};

// ------------------------------------------------------------------------------------------------
// source files

struct Src {
    rel: String,
    text: String,
    line_starts: Vec<usize>,
    ast: syn::File,
}

impl Src {
    fn load(repo: &Path, rel: &str) -> Result<Src, String> {
        let p = repo.join(rel);
        let text = std::fs::read_to_string(&p).map_err(|e| format!("cannot read {}: {e}", p.display()))?;
        let ast = syn::parse_file(&text).map_err(|e| format!("cannot parse {}: {e}", p.display()))?;
        let mut line_starts = vec![0usize];
        for (i, b) in text.bytes().enumerate() {
            if b == b'\n' {
                line_starts.push(i + 1);
            }
        }
        Ok(Src { rel: rel.to_string(), text, line_starts, ast })
    }
    fn off(&self, lc: LineColumn) -> usize {
        let ls = self.line_starts[lc.line - 1];
        let line = &self.text[ls..];
        let mut bytes = 0;
        for (n, ch) in line.chars().enumerate() {
            if n == lc.column {
                break;
            }
            bytes += ch.len_utf8();
        }
        ls + bytes
    }
    fn range(&self, sp: Span) -> (usize, usize) {
        (self.off(sp.start()), self.off(sp.end()))
    }
    fn line_of(&self, off: usize) -> usize {
        match self.line_starts.binary_search(&off) {
            Ok(i) => i + 1,
            Err(i) => i,
        }
    }
    fn slice(&self, r: (usize, usize)) -> &str {
        &self.text[r.0..r.1]
    }
}

// ------------------------------------------------------------------------------------------------
// edits

#[derive(Clone, Copy, PartialEq, Eq, PartialOrd, Ord, Debug)]
enum Kind {
    Suffix = 0,
    Prefix = 1,
    Replace = 2,
}

#[derive(Clone, Debug)]
struct Edit {
    start: usize,
    end: usize,
    text: String,
    kind: Kind,
    seq: usize,
    rule: &'static str,
    /// when Some: the inserted text is a contract splice with this tag (for the line map)
    splice: Option<String>,
}

#[derive(Default)]
struct Edits {
    v: Vec<Edit>,
}
impl Edits {
    fn prefix(&mut self, at: usize, text: &str, rule: &'static str) {
        let seq = self.v.len();
        self.v.push(Edit { start: at, end: at, text: text.into(), kind: Kind::Prefix, seq, rule, splice: None });
    }
    fn suffix(&mut self, at: usize, text: &str, rule: &'static str) {
        let seq = self.v.len();
        self.v.push(Edit { start: at, end: at, text: text.into(), kind: Kind::Suffix, seq, rule, splice: None });
    }
    fn replace(&mut self, r: (usize, usize), text: &str, rule: &'static str) {
        let seq = self.v.len();
        self.v.push(Edit { start: r.0, end: r.1, text: text.into(), kind: Kind::Replace, seq, rule, splice: None });
    }
    fn splice(&mut self, at: usize, text: &str, tag: &str, as_suffix: bool) {
        let seq = self.v.len();
        self.v.push(Edit {
            start: at,
            end: at,
            text: text.into(),
            kind: if as_suffix { Kind::Suffix } else { Kind::Prefix },
            seq,
            rule: "splice",
            splice: Some(tag.into()),
        });
    }
    fn sorted(&self) -> Result<Vec<Edit>, String> {
        let mut v = self.v.clone();
        v.sort_by(|a, b| {
            a.start
                .cmp(&b.start)
                .then(a.kind.cmp(&b.kind))
                .then_with(|| match a.kind {
                    Kind::Suffix => b.seq.cmp(&a.seq),
                    _ => a.seq.cmp(&b.seq),
                })
        });
        // overlap check
        let mut last_end = 0usize;
        for e in &v {
            if e.start < last_end {
                return Err(format!("overlapping edits at byte {} (rule {})", e.start, e.rule));
            }
            if e.kind == Kind::Replace {
                last_end = e.end;
            }
        }
        Ok(v)
    }
}

/// One piece of output with its origin (for the line map).
#[derive(Clone, Debug)]
enum Origin {
    Src { file: String, line: usize },
    Splice { tag: String },
    Gen,
}

struct Rendered {
    text: String,
    /// origin of every output line (index = line within text)
    origins: Vec<Origin>,
}

fn render(src: &Src, range: (usize, usize), edits: &Edits) -> Result<Rendered, String> {
    let evs = edits.sorted()?;
    let mut text = String::new();
    let mut origins: Vec<Origin> = vec![Origin::Src { file: src.rel.clone(), line: src.line_of(range.0) }];
    let mut pos = range.0;
    let push = |text: &mut String, origins: &mut Vec<Origin>, s: &str, org: &dyn Fn(usize) -> Origin| {
        for (k, part) in s.split('\n').enumerate() {
            if k > 0 {
                text.push('\n');
                origins.push(org(k));
            }
            text.push_str(part);
        }
    };
    for e in evs.iter() {
        if e.start < range.0 || e.end > range.1 {
            continue;
        }
        // copy source up to e.start
        let chunk = &src.text[pos..e.start];
        let base_line = src.line_of(pos);
        let file = src.rel.clone();
        push(&mut text, &mut origins, chunk, &|k| Origin::Src { file: file.clone(), line: base_line + k });
        // insert replacement
        match &e.splice {
            Some(tag) => {
                let tag = tag.clone();
                push(&mut text, &mut origins, &e.text, &|_| Origin::Splice { tag: tag.clone() });
            }
            None => {
                let l = src.line_of(e.start);
                push(&mut text, &mut origins, &e.text, &|_| Origin::Src { file: file.clone(), line: l });
            }
        }
        pos = e.end;
    }
    let chunk = &src.text[pos..range.1];
    let base_line = src.line_of(pos);
    let file = src.rel.clone();
    push(&mut text, &mut origins, chunk, &|k| Origin::Src { file: file.clone(), line: base_line + k });
    Ok(Rendered { text, origins })
}

// ------------------------------------------------------------------------------------------------
// crate-wide facts used by type-driven rules

#[derive(Default)]
struct Facts {
    /// fields whose declared type is `Pin<..>`
    pin_typed_fields: BTreeSet<String>,
    /// fields marked #[pin] in a pin_project! struct
    pinned_fields: BTreeSet<String>,
    /// all fields of pin_project! structs
    projected_fields: BTreeSet<String>,
    /// fields of declared type Wrapping<..>
    wrapping_fields: BTreeSet<String>,
}

fn type_last_ident(t: &syn::Type) -> Option<String> {
    if let syn::Type::Path(tp) = t {
        tp.path.segments.last().map(|s| s.ident.to_string())
    } else {
        None
    }
}

fn scan_struct(st: &syn::ItemStruct, projected: bool, facts: &mut Facts) {
    for f in st.fields.iter() {
        let Some(id) = &f.ident else { continue };
        let name = id.to_string();
        match type_last_ident(&f.ty).as_deref() {
            Some("Pin") => {
                facts.pin_typed_fields.insert(name.clone());
            }
            Some("Wrapping") => {
                facts.wrapping_fields.insert(name.clone());
            }
            _ => {}
        }
        if projected {
            facts.projected_fields.insert(name.clone());
            if f.attrs.iter().any(|a| a.path().is_ident("pin")) {
                facts.pinned_fields.insert(name.clone());
            }
        }
    }
}

fn structs_in_file(ast: &syn::File) -> Vec<(syn::ItemStruct, bool)> {
    let mut out = vec![];
    for it in &ast.items {
        match it {
            syn::Item::Struct(s) => out.push((s.clone(), false)),
            syn::Item::Macro(m) if m.mac.path.is_ident("pin_project") => {
                if let Ok(s) = syn::parse2::<syn::ItemStruct>(m.mac.tokens.clone()) {
                    out.push((s, true));
                }
            }
            _ => {}
        }
    }
    out
}

// ------------------------------------------------------------------------------------------------
// vspec

#[derive(Default, Clone, Debug)]
struct Block {
    text: String,
    /// 1-based line in the vspec file where the block text starts
    line: usize,
}

#[derive(Default, Clone, Debug)]
struct FnSpec {
    key: String,
    props: Vec<String>,
    primary: Vec<String>,
    ret: String,
    mode: String, // verify | assume
    requires: Option<Block>,
    ensures: Option<Block>,
    loops: BTreeMap<usize, Block>,
    at: BTreeMap<String, Block>, // "entry", "end", "exit 1", "loop-end 0", "panic 0"
    opts: BTreeSet<String>,
    extra_bounds: Vec<String>,
    recommends: Option<Block>,
    sig_replace: Vec<(String, String)>,
    vspec_line: usize,
}

#[derive(Clone, Debug)]
enum Directive {
    File(String),
    Raw(Block),
    Type { name: String, opts: Vec<String> },
    Item { kind: String, name: String },
    Fn(FnSpec),
}

fn parse_vspec(path: &Path) -> Result<Vec<Directive>, String> {
    let text = std::fs::read_to_string(path).map_err(|e| format!("cannot read {}: {e}", path.display()))?;
    let lines: Vec<&str> = text.lines().collect();
    let mut i = 0;
    let mut out: Vec<Directive> = vec![];
    let mut cur: Option<FnSpec> = None;
    let read_block = |i: &mut usize, lines: &Vec<&str>| -> Result<Block, String> {
        // current line ends with <<< ; read until a line that is exactly >>>
        let start = *i + 1;
        let mut j = start;
        let mut buf = String::new();
        loop {
            if j >= lines.len() {
                return Err(format!("{}:{}: unterminated <<< block", path.display(), *i + 1));
            }
            if lines[j].trim() == ">>>" {
                break;
            }
            buf.push_str(lines[j]);
            buf.push('\n');
            j += 1;
        }
        *i = j; // points at >>>
        Ok(Block { text: buf, line: start + 1 })
    };
    while i < lines.len() {
        let raw = lines[i];
        let l = raw.trim();
        if l.is_empty() || l.starts_with('#') {
            i += 1;
            continue;
        }
        let (word, rest) = match l.split_once(char::is_whitespace) {
            Some((w, r)) => (w, r.trim()),
            None => (l, ""),
        };
        let top = matches!(word, "file" | "raw" | "type" | "fn" | "item");
        if top {
            if let Some(f) = cur.take() {
                out.push(Directive::Fn(f));
            }
        }
        match word {
            "file" => out.push(Directive::File(rest.to_string())),
            "raw" => {
                let b = read_block(&mut i, &lines)?;
                out.push(Directive::Raw(b));
            }
            "type" => {
                let mut it = rest.split_whitespace();
                let name = it.next().unwrap_or("").to_string();
                out.push(Directive::Type { name, opts: it.map(|s| s.to_string()).collect() });
            }
            "item" => {
                let mut it = rest.split_whitespace();
                let kind = it.next().unwrap_or("").to_string();
                let name = if kind == "fnconst" { it.collect::<Vec<_>>().join(" ") } else { it.next().unwrap_or("").to_string() };
                out.push(Directive::Item { kind, name });
            }
            "fn" => {
                cur = Some(FnSpec { key: rest.to_string(), ret: "r".into(), mode: "verify".into(), vspec_line: i + 1, ..Default::default() });
            }
            _ => {
                let Some(f) = cur.as_mut() else {
                    return Err(format!("{}:{}: directive `{word}` outside fn", path.display(), i + 1));
                };
                match word {
                    "props" => f.props = rest.split_whitespace().map(|s| s.to_string()).collect(),
                    "primary" => f.primary = rest.split_whitespace().map(|s| s.to_string()).collect(),
                    "ret" => f.ret = rest.to_string(),
                    "mode" => f.mode = rest.to_string(),
                    "opt" => {
                        for o in rest.split_whitespace() {
                            f.opts.insert(o.to_string());
                        }
                    }
                    "bound" => f.extra_bounds.push(rest.to_string()),
                    "sig-replace" => {
                        // sig-replace `from` => `to`
                        let parts: Vec<&str> = rest.split("=>").collect();
                        if parts.len() != 2 {
                            return Err(format!("{}:{}: sig-replace needs `a => b`", path.display(), i + 1));
                        }
                        f.sig_replace.push((parts[0].trim().trim_matches('`').to_string(), parts[1].trim().trim_matches('`').to_string()));
                    }
                    "requires" => f.requires = Some(read_block(&mut i, &lines)?),
                    "recommends" => f.recommends = Some(read_block(&mut i, &lines)?),
                    "ensures" => f.ensures = Some(read_block(&mut i, &lines)?),
                    "loop" => {
                        let n: usize = rest.trim_end_matches("<<<").trim().parse().map_err(|_| format!("{}:{}: bad loop ordinal", path.display(), i + 1))?;
                        let b = read_block(&mut i, &lines)?;
                        f.loops.insert(n, b);
                    }
                    "at" => {
                        let pos = rest.trim_end_matches("<<<").trim().to_string();
                        let b = read_block(&mut i, &lines)?;
                        f.at.insert(pos, b);
                    }
                    _ => return Err(format!("{}:{}: unknown directive `{word}`", path.display(), i + 1)),
                }
            }
        }
        i += 1;
    }
    if let Some(f) = cur.take() {
        out.push(Directive::Fn(f));
    }
    Ok(out)
}

// ------------------------------------------------------------------------------------------------
// locating functions

struct Located<'a> {
    /// impl generics + self type header text pieces (None for free fns)
    imp: Option<&'a syn::ItemImpl>,
    sig: &'a syn::Signature,
    block: &'a syn::Block,
    /// assoc types of the impl (for `Self::Item` replacement)
    assoc: HashMap<String, String>,
}

fn impl_self_name(imp: &syn::ItemImpl) -> Option<String> {
    type_last_ident(&imp.self_ty)
}

fn locate<'a>(src: &'a Src, key: &str) -> Result<Located<'a>, String> {
    // key forms: "::name" | "Type::name" | "Trait for Type::name" | "Type#2::name" (n-th inherent impl)
    let (left, name) = key.rsplit_once("::").ok_or_else(|| format!("bad fn key `{key}`"))?;
    if left.is_empty() {
        for it in &src.ast.items {
            if let syn::Item::Fn(f) = it {
                if f.sig.ident == name {
                    return Ok(Located { imp: None, sig: &f.sig, block: &f.block, assoc: HashMap::new() });
                }
            }
        }
        return Err(format!("free fn `{name}` not found in {}", src.rel));
    }
    let (tr, ty) = match left.split_once(" for ") {
        Some((t, y)) => (Some(t.trim()), y.trim()),
        None => (None, left.trim()),
    };
    let mut found: Vec<Located<'a>> = vec![];
    for it in &src.ast.items {
        let syn::Item::Impl(imp) = it else { continue };
        if impl_self_name(imp).as_deref() != Some(ty) {
            continue;
        }
        let imp_trait = imp.trait_.as_ref().and_then(|(_, p, _)| p.segments.last().map(|s| s.ident.to_string()));
        if imp_trait.as_deref() != tr {
            continue;
        }
        let mut assoc = HashMap::new();
        for ii in &imp.items {
            if let syn::ImplItem::Type(t) = ii {
                assoc.insert(t.ident.to_string(), src.slice(src.range(t.ty.span())).to_string());
            }
        }
        for ii in &imp.items {
            if let syn::ImplItem::Fn(f) = ii {
                if f.sig.ident == name {
                    found.push(Located { imp: Some(imp), sig: &f.sig, block: &f.block, assoc: assoc.clone() });
                }
            }
        }
    }
    match found.len() {
        0 => Err(format!("fn `{key}` not found in {}", src.rel)),
        1 => Ok(found.pop().unwrap()),
        n => Err(format!("fn `{key}` is ambiguous in {} ({n} candidates)", src.rel)),
    }
}

// ------------------------------------------------------------------------------------------------
// the rewriting visitor

struct Rw<'a> {
    src: &'a Src,
    facts: &'a Facts,
    ed: Edits,
    fired: BTreeSet<&'static str>,
    errors: Vec<String>,
    self_is_pin: bool,
    proj_var: Option<String>,
    destructured: BTreeSet<String>,
    assoc: HashMap<String, String>,
    poll_try: bool,
    // structural positions
    returns: Vec<(usize, usize)>,     // ranges of `return ..` expressions, in source order
    loops: Vec<(usize, usize, usize)>, // (header end = body brace open, body brace close, loop start)
    panics: Vec<(usize, usize)>,
    arms: Vec<(usize, usize, bool)>,          // match arm bodies (start, end, is_block)
    calls: Vec<(String, usize, bool)>,        // (callee name, end of enclosing statement, stmt is a tail expression)
    stmt_stack: Vec<(usize, bool)>,
    closures: Vec<(usize, usize, usize, bool)>, // (end of `|params|`, body start, body end, body is a block)
    /// T2.alias: `let x = this.f;` (f a projected, un-pinned field: x is just `&mut self.f`) is inlined
    aliases: HashMap<String, String>,
    /// T16: depth of loop nesting below the function's tail `loop` (0 = not inside it)
    tail_loop_depth: usize,
    tail_loop_start: Option<usize>,
    /// for-loops: (ordinal among all loops, start of the iterable expression)
    for_iters: Vec<(usize, usize)>,
    /// T17: `if` statements (by ordinal) whose then-block is replaced by a call to an assumed stub
    outline: HashMap<usize, (String, usize)>,
    if_count: usize,
    /// (ordinal, end offset) of every `if` expression
    if_ends: Vec<(usize, usize)>,
    /// splices for the `Poll::Pending => return Poll::Pending` arm of the k-th ready!() expansion
    ready_splices: HashMap<usize, String>,
    ready_count: usize,
}

fn path_is(p: &syn::Path, segs: &[&str]) -> bool {
    p.segments.len() == segs.len() && p.segments.iter().zip(segs).all(|(a, b)| a.ident == b)
}

fn expr_is_path(e: &syn::Expr, name: &str) -> bool {
    matches!(e, syn::Expr::Path(p) if p.qself.is_none() && p.path.is_ident(name))
}

impl<'a> Rw<'a> {
    fn r(&self, sp: Span) -> (usize, usize) {
        self.src.range(sp)
    }
    fn fire(&mut self, rule: &'static str) {
        self.fired.insert(rule);
    }

    /// classification of a method receiver for the Pin idioms
    fn recv_kind(&self, e: &syn::Expr) -> &'static str {
        match e {
            syn::Expr::Path(p) if p.path.is_ident("self") && self.self_is_pin => "self_pin",
            syn::Expr::Field(f) => {
                let name = match &f.member {
                    syn::Member::Named(i) => i.to_string(),
                    _ => return "other",
                };
                if let Some(pv) = &self.proj_var {
                    if expr_is_path(&f.base, pv) {
                        return if self.facts.pinned_fields.contains(&name) { "proj_pinned" } else { "proj_plain" };
                    }
                }
                if expr_is_path(&f.base, "self") && self.facts.pin_typed_fields.contains(&name) {
                    return "pin_field";
                }
                "other"
            }
            syn::Expr::Paren(p) => self.recv_kind(&p.expr),
            _ => "other",
        }
    }

    fn visit_expr_closure_inner(&mut self, e: &syn::Expr) {
        if let syn::Expr::Closure(c) = e {
            let b = self.r(c.body.span());
            let hdr_end = match &c.output {
                syn::ReturnType::Type(_, t) => self.r(t.span()).1,
                syn::ReturnType::Default => self.r(c.or2_token.span()).1,
            };
            self.closures.push((hdr_end, b.0, b.1, matches!(&*c.body, syn::Expr::Block(_))));
            visit::visit_expr(self, e);
        }
    }

    fn handle_macro(&mut self, mac: &syn::Macro, whole: (usize, usize)) {
        let name = mac.path.segments.last().map(|s| s.ident.to_string()).unwrap_or_default();
        let (open, close) = match &mac.delimiter {
            syn::MacroDelimiter::Paren(p) => (self.r(p.span.open()), self.r(p.span.close())),
            syn::MacroDelimiter::Brace(p) => (self.r(p.span.open()), self.r(p.span.close())),
            syn::MacroDelimiter::Bracket(p) => (self.r(p.span.open()), self.r(p.span.close())),
        };
        match name.as_str() {
            "ready" => {
                match syn::parse2::<syn::Expr>(mac.tokens.clone()) {
                    Ok(e) => {
                        self.fire("T3.ready");
                        self.ed.replace((whole.0, open.1), "(match ", "T3.ready");
                        let k = self.ready_count;
                        self.ready_count += 1;
                        let sp = self.ready_splices.get(&k).cloned().unwrap_or_default();
                        if sp.is_empty() {
                            self.ed.replace((close.0, whole.1), " { Poll::Ready(vx_t) => vx_t, Poll::Pending => return Poll::Pending })", "T3.ready");
                        } else {
                            self.ed.replace((close.0, whole.1), &format!(" {{ Poll::Ready(vx_t) => vx_t, Poll::Pending => {{\n{sp}\nreturn Poll::Pending }} }})"), "T3.ready");
                        }
                        self.visit_expr(&e);
                    }
                    Err(e) => self.errors.push(format!("ready! argument does not parse: {e}")),
                }
            }
            "debug_assert" | "debug_assert_eq" | "debug_assert_ne" => {
                let parser = syn::punctuated::Punctuated::<syn::Expr, syn::Token![,]>::parse_terminated;
                match syn::parse::Parser::parse2(parser, mac.tokens.clone()) {
                    Ok(args) => {
                        let args: Vec<syn::Expr> = args.into_iter().collect();
                        if name == "debug_assert" && !args.is_empty() {
                            self.fire("T3.debug_assert");
                            let c = self.r(args[0].span());
                            self.ed.replace((whole.0, c.0), "{ let vx_dbg_ok: bool = ", "T3.debug_assert");
                            self.ed.replace((c.1, whole.1), "; assert(vx_dbg_ok); }", "T3.debug_assert");
                            self.visit_expr(&args[0]);
                        } else if args.len() >= 2 {
                            self.fire("T3.debug_assert");
                            let a = self.r(args[0].span());
                            let b = self.r(args[1].span());
                            let op = if name == "debug_assert_eq" { ") == (" } else { ") != (" };
                            self.ed.replace((whole.0, a.0), "{ let vx_dbg_ok: bool = (", "T3.debug_assert");
                            self.ed.replace((a.1, b.0), op, "T3.debug_assert");
                            self.ed.replace((b.1, whole.1), "); assert(vx_dbg_ok); }", "T3.debug_assert");
                            self.visit_expr(&args[0]);
                            self.visit_expr(&args[1]);
                        } else {
                            self.errors.push(format!("{name}! with unexpected arguments"));
                        }
                    }
                    Err(e) => self.errors.push(format!("{name}! arguments do not parse: {e}")),
                }
            }
            "panic" => {
                self.fire("T3.panic");
                self.panics.push(whole);
                self.ed.replace(whole, "vx_panic()", "T3.panic");
            }
            "unreachable" => {
                self.fire("T3.unreachable");
                self.ed.replace(whole, "vx_unreachable()", "T3.unreachable");
            }
            other => self.errors.push(format!("macro `{other}!` is outside the rewrite table")),
        }
    }
}

impl<'a, 'ast> Visit<'ast> for Rw<'a> {
    fn visit_type(&mut self, t: &'ast syn::Type) {
        if let syn::Type::Path(tp) = t {
            if tp.qself.is_none() {
                let last = tp.path.segments.last().unwrap();
                // T1: Pin<X> -> X
                if last.ident == "Pin" {
                    if let syn::PathArguments::AngleBracketed(ab) = &last.arguments {
                        if ab.args.len() == 1 {
                            if let syn::GenericArgument::Type(inner) = &ab.args[0] {
                                self.fire("T1.pin_type");
                                let whole = self.r(t.span());
                                let inn = self.r(inner.span());
                                self.ed.replace((whole.0, inn.0), "", "T1.pin_type");
                                self.ed.replace((inn.1, whole.1), "", "T1.pin_type");
                                self.visit_type(inner);
                                return;
                            }
                        }
                    }
                }
                // T4: PollFn<F, O> -> impl Fn(&mut F, &mut Context<'_>) -> Poll<O>
                if last.ident == "PollFn" && tp.path.segments.len() == 1 {
                    if let syn::PathArguments::AngleBracketed(ab) = &last.arguments {
                        if ab.args.len() == 2 {
                            self.fire("T4.pollfn");
                            let a = self.src.slice(self.r(ab.args[0].span())).to_string();
                            let b = self.src.slice(self.r(ab.args[1].span())).to_string();
                            let whole = self.r(t.span());
                            self.ed.replace(whole, &format!("impl Fn(&mut {a}, &mut Context<'_>) -> Poll<{b}>"), "T4.pollfn");
                            return;
                        }
                    }
                }
                // T5: Self::Item / Self::Output of a trait impl emitted as inherent method
                if tp.path.segments.len() == 2 && tp.path.segments[0].ident == "Self" {
                    let a = tp.path.segments[1].ident.to_string();
                    if let Some(def) = self.assoc.get(&a).cloned() {
                        self.fire("T5.assoc_type");
                        let whole = self.r(t.span());
                        self.ed.replace(whole, &def, "T5.assoc_type");
                        return;
                    }
                }
            }
        }
        visit::visit_type(self, t);
    }

    fn visit_path(&mut self, p: &'ast syn::Path) {
        // T15: strip `crate::<module>::`
        if p.segments.len() >= 2 && p.segments[0].ident == "crate" {
            self.fire("T15.crate_path");
            let s0 = self.r(p.segments[0].span());
            let keep = if p.segments.len() >= 3 { 2 } else { 1 };
            let sk = self.r(p.segments[keep].ident.span());
            self.ed.replace((s0.0, sk.0), "", "T15.crate_path");
        }
        visit::visit_path(self, p);
    }

    fn visit_block(&mut self, b: &'ast syn::Block) {
        for st in &b.stmts {
            let tail = matches!(st, syn::Stmt::Expr(_, None));
            let end = self.r(st.span()).1;
            self.stmt_stack.push((end, tail));
            self.visit_stmt(st);
            self.stmt_stack.pop();
        }
    }

    fn visit_stmt(&mut self, s: &'ast syn::Stmt) {
        match s {
            syn::Stmt::Local(l) => {
                if let Some(init) = &l.init {
                    // T2: let [mut] this = self.project();
                    if let syn::Expr::MethodCall(mc) = &*init.expr {
                        if mc.method == "project" && expr_is_path(&mc.receiver, "self") {
                            if let syn::Pat::Ident(pi) = &l.pat {
                                self.fire("T2.project");
                                self.proj_var = Some(pi.ident.to_string());
                                self.ed.replace(self.r(s.span()), "", "T2.project");
                                return;
                            }
                        }
                    }
                    // T10.self_alias: `let this = &mut *self;` is a plain reborrow of self; uses of `this` become `self`
                    if let syn::Pat::Ident(pi) = &l.pat {
                        let init_txt: String = self.src.slice(self.r(init.expr.span())).split_whitespace().collect();
                        if init_txt == "&mut*self" && pi.mutability.is_none() && pi.by_ref.is_none() {
                            self.fire("T10.self_alias");
                            self.aliases.insert(pi.ident.to_string(), String::new());
                            self.ed.replace(self.r(s.span()), "", "T10.self_alias");
                            return;
                        }
                    }
                    // T2.alias: let x = this.f;
                    if let (syn::Pat::Ident(pi), syn::Expr::Field(f), Some(pv)) = (&l.pat, &*init.expr, self.proj_var.clone()) {
                        if let syn::Member::Named(fid) = &f.member {
                            if expr_is_path(&f.base, &pv) && pi.mutability.is_none() && pi.by_ref.is_none()
                                && self.facts.projected_fields.contains(&fid.to_string()) && !self.facts.pinned_fields.contains(&fid.to_string())
                            {
                                self.fire("T2.alias");
                                self.aliases.insert(pi.ident.to_string(), fid.to_string());
                                self.ed.replace(self.r(s.span()), "", "T2.alias");
                                return;
                            }
                        }
                    }
                    // T10: let Self { a, b } = &mut *self;
                    if let syn::Pat::Struct(ps) = &l.pat {
                        if ps.path.is_ident("Self") {
                            let init_txt: String = self.src.slice(self.r(init.expr.span())).split_whitespace().collect();
                            if init_txt == "&mut*self" {
                                self.fire("T10.destructure");
                                for f in &ps.fields {
                                    if let syn::Member::Named(i) = &f.member {
                                        self.destructured.insert(i.to_string());
                                    }
                                }
                                self.ed.replace(self.r(s.span()), "", "T10.destructure");
                                return;
                            }
                        }
                    }
                    // T13: a local holding a WakerList is mutable (the stub's queue methods take &mut self)
                    if let syn::Expr::Call(c) = &*init.expr {
                        if let syn::Expr::Path(fp) = &*c.func {
                            if path_is(&fp.path, &["WakerList", "new"]) {
                                if let syn::Pat::Ident(pi) = &l.pat {
                                    if pi.mutability.is_none() {
                                        self.fire("T13.let_mut");
                                        let at = self.r(pi.ident.span()).0;
                                        self.ed.prefix(at, "mut ", "T13.let_mut");
                                    }
                                }
                            }
                        }
                    }
                }
                visit::visit_stmt(self, s);
            }
            syn::Stmt::Macro(m) => {
                let whole = self.r(m.mac.span());
                self.handle_macro(&m.mac, whole);
            }
            _ => visit::visit_stmt(self, s),
        }
    }

    fn visit_expr(&mut self, e: &'ast syn::Expr) {
        match e {
            syn::Expr::Macro(m) => {
                let whole = self.r(m.mac.span());
                self.handle_macro(&m.mac, whole);
            }
            syn::Expr::Unsafe(u) => {
                self.fire("T6.unsafe_block");
                let k = self.r(u.unsafe_token.span());
                self.ed.replace(k, "", "T6.unsafe_block");
                visit::visit_expr(self, e);
            }
            syn::Expr::If(i) => {
                let k = self.if_count;
                self.if_count += 1;
                self.if_ends.push((k, self.r(e.span()).1));
                if let Some((call, keep)) = self.outline.get(&k).cloned() {
                    // T17: the block is replaced by its assumed contract (a stub call); with `keep N` the last N statements
                    // of the block stay as they are (and are verified), only the statements before them are outlined
                    self.fire("T17.outline_block");
                    let stmts = &i.then_branch.stmts;
                    // `keep N`: at most N trailing statements, and only plain (compound) assignments `place op= expr;` -
                    // whatever else ends the block belongs to the outlined part (so a block that lost one of its closing
                    // assignments still yields verifiable text, and the clause about the assigned place fails by name)
                    let simple = |st: &syn::Stmt| match st {
                        syn::Stmt::Expr(syn::Expr::Assign(_), Some(_)) => true,
                        syn::Stmt::Expr(syn::Expr::Binary(b), Some(_)) => matches!(b.op,
                            syn::BinOp::AddAssign(_) | syn::BinOp::SubAssign(_) | syn::BinOp::BitXorAssign(_) | syn::BinOp::BitAndAssign(_) | syn::BinOp::BitOrAssign(_)),
                        _ => false,
                    };
                    let keep = stmts.iter().rev().take(keep).take_while(|st| simple(st)).count();
                    if keep > 0 && stmts.len() > keep {
                        let open = self.r(i.then_branch.brace_token.span.open());
                        let first_kept = self.r(stmts[stmts.len() - keep].span());
                        self.ed.replace((open.1, first_kept.0), &format!(" {call}; "), "T17.outline_block");
                        for st in &stmts[stmts.len() - keep..] {
                            self.visit_stmt(st);
                        }
                    } else {
                        let r = self.r(i.then_branch.span());
                        self.ed.replace(r, &format!("{{ {call}; }}"), "T17.outline_block");
                    }
                    self.visit_expr(&i.cond);
                    if let Some((_, e)) = &i.else_branch {
                        self.visit_expr(e);
                    }
                    return;
                }
                visit::visit_expr(self, e);
            }
            syn::Expr::Closure(c) => {
                let b = self.r(c.body.span());
                let hdr_end = match &c.output {
                    syn::ReturnType::Type(_, t) => self.r(t.span()).1,
                    syn::ReturnType::Default => self.r(c.or2_token.span()).1,
                };
                self.closures.push((hdr_end, b.0, b.1, matches!(&*c.body, syn::Expr::Block(_))));
                visit::visit_expr(self, e);
            }
            syn::Expr::Match(m) => {
                for a in &m.arms {
                    let r = self.r(a.body.span());
                    self.arms.push((r.0, r.1, matches!(&*a.body, syn::Expr::Block(_))));
                }
                visit::visit_expr(self, e);
            }
            syn::Expr::Return(r) => {
                self.returns.push(self.r(r.span()));
                visit::visit_expr(self, e);
            }
            syn::Expr::Loop(l) => {
                let b = &l.body;
                let st = self.r(l.span()).0;
                self.loops.push((self.r(b.brace_token.span.open()).0, self.r(b.brace_token.span.close()).0, st));
                let is_tail = self.tail_loop_start == Some(st);
                if is_tail { self.tail_loop_depth = 1; } else if self.tail_loop_depth > 0 { self.tail_loop_depth += 1; }
                visit::visit_expr(self, e);
                if is_tail { self.tail_loop_depth = 0; } else if self.tail_loop_depth > 0 { self.tail_loop_depth -= 1; }
            }
            syn::Expr::While(l) => {
                let b = &l.body;
                self.loops.push((self.r(b.brace_token.span.open()).0, self.r(b.brace_token.span.close()).0, self.r(l.span()).0));
                if self.tail_loop_depth > 0 { self.tail_loop_depth += 1; }
                visit::visit_expr(self, e);
                if self.tail_loop_depth > 0 { self.tail_loop_depth -= 1; }
            }
            syn::Expr::ForLoop(l) => {
                let b = &l.body;
                self.for_iters.push((self.loops.len(), self.r(l.expr.span()).0));
                self.loops.push((self.r(b.brace_token.span.open()).0, self.r(b.brace_token.span.close()).0, self.r(l.span()).0));
                if self.tail_loop_depth > 0 { self.tail_loop_depth += 1; }
                visit::visit_expr(self, e);
                if self.tail_loop_depth > 0 { self.tail_loop_depth -= 1; }
            }
            syn::Expr::Break(b) if b.expr.is_some() && b.label.is_none() && self.tail_loop_depth == 1 => {
                // T16: `break v` out of the loop that is the function's tail expression == `return v`
                self.fire("T16.tail_loop_break");
                self.ed.replace(self.r(b.break_token.span()), "return", "T16.tail_loop_break");
                self.returns.push(self.r(b.span()));
                visit::visit_expr(self, e);
            }
            syn::Expr::Closure(_) if self.tail_loop_depth > 0 => {
                let d = self.tail_loop_depth;
                self.tail_loop_depth = 0;
                self.visit_expr_closure_inner(e);
                self.tail_loop_depth = d;
            }
            syn::Expr::Call(c) => {
                if let syn::Expr::Path(fp) = &*c.func {
                    let segs: Vec<String> = fp.path.segments.iter().map(|s| s.ident.to_string()).collect();
                    let n = segs.len();
                    if let Some(&(end, tail)) = self.stmt_stack.last() {
                        self.calls.push((segs[n - 1].clone(), end, tail));
                    }
                    // T6: Box::into_raw(b) -> (b);  Box::from_raw(p as *mut [T]) -> vx_box_assume_init(p)
                    // (the raw pointer is modelled by the box it came from; the cast is MaybeUninit's assume_init)
                    if n == 2 && segs[0] == "Box" && segs[1] == "into_raw" && c.args.len() == 1 {
                        self.fire("T6.box_into_raw");
                        self.ed.replace(self.r(c.func.span()), "", "T6.box_into_raw");
                        self.visit_expr(&c.args[0]);
                        return;
                    }
                    if n == 2 && segs[0] == "Box" && segs[1] == "from_raw" && c.args.len() == 1 {
                        if let syn::Expr::Cast(ca) = &c.args[0] {
                            let ty: String = self.src.slice(self.r(ca.ty.span())).split_whitespace().collect();
                            if ty.starts_with("*mut[") {
                                self.fire("T6.box_assume_init");
                                self.ed.replace(self.r(c.func.span()), "vx_box_assume_init", "T6.box_assume_init");
                                let inner = self.r(ca.expr.span());
                                let whole = self.r(c.args[0].span());
                                self.ed.replace((inner.1, whole.1), "", "T6.box_assume_init");
                                self.visit_expr(&ca.expr);
                                return;
                            }
                        }
                        self.errors.push("Box::from_raw outside the rewrite table".into());
                    }
                    // T1: Pin::new(e) / Pin::new_unchecked(e) -> (e)
                    if n >= 2 && segs[n - 2] == "Pin" && (segs[n - 1] == "new" || segs[n - 1] == "new_unchecked") && c.args.len() == 1 {
                        self.fire("T1.pin_new");
                        self.ed.replace(self.r(c.func.span()), "", "T1.pin_new");
                        self.visit_expr(&c.args[0]);
                        return;
                    }
                }
                visit::visit_expr(self, e);
            }
            syn::Expr::MethodCall(mc) => {
                let m = mc.method.to_string();
                if let Some(&(end, tail)) = self.stmt_stack.last() {
                    self.calls.push((m.clone(), end, tail));
                }
                let recv = self.r(mc.receiver.span());
                let whole = self.r(e.span());
                match m.as_str() {
                    "get_unchecked_mut" if mc.args.is_empty() => {
                        self.fire("T1.get_unchecked_mut");
                        self.ed.replace((recv.1, whole.1), "", "T1.get_unchecked_mut");
                        self.visit_expr(&mc.receiver);
                        return;
                    }
                    "project" if mc.args.is_empty() => {
                        self.fire("T2.project");
                        self.ed.replace((recv.1, whole.1), "", "T2.project");
                        self.visit_expr(&mc.receiver);
                        return;
                    }
                    "as_pin_mut" if mc.args.is_empty() => {
                        self.fire("T2.as_pin_mut");
                        self.ed.replace(self.r(mc.method.span()), "as_mut", "T2.as_pin_mut");
                        self.visit_expr(&mc.receiver);
                        return;
                    }
                    "as_mut" if mc.args.is_empty() => {
                        match self.recv_kind(&mc.receiver) {
                            "self_pin" | "proj_pinned" => {
                                self.fire("T1.pin_as_mut");
                                self.ed.replace((recv.1, whole.1), "", "T1.pin_as_mut");
                                self.visit_expr(&mc.receiver);
                                return;
                            }
                            "pin_field" => {
                                self.fire("T1.pin_as_mut");
                                self.ed.prefix(recv.0, "(&mut *", "T1.pin_as_mut");
                                self.ed.replace((recv.1, whole.1), ")", "T1.pin_as_mut");
                                self.visit_expr(&mc.receiver);
                                return;
                            }
                            _ => {}
                        }
                    }
                    "set" if mc.args.len() == 1 && self.src.slice(self.r(mc.args[0].span())).trim() == "None"
                        && (matches!(&*mc.receiver, syn::Expr::MethodCall(im) if im.method == "as_mut" && self.recv_kind(&im.receiver) == "proj_pinned")
                            || self.recv_kind(&mc.receiver) == "proj_pinned") =>
                    {
                        // T1/T2: `this.stream.as_mut().set(None)` (dropping the pinned upstream in place) -> vx_end_stream(&mut self.stream):
                        // the same assignment, through a checked helper whose precondition is "upstream has ended"
                        self.fire("T2.end_stream");
                        self.ed.prefix(whole.0, "vx_end_stream(", "T2.end_stream");
                        self.ed.replace((recv.1, whole.1), ")", "T2.end_stream");
                        self.visit_expr(&mc.receiver);
                        return;
                    }
                    "set" if mc.args.len() == 1 => {
                        // T1: pin.set(v) -> *pin = v   (Pin::set is the only `.set` in the extracted code)
                        self.fire("T1.pin_set");
                        let a = self.r(mc.args[0].span());
                        self.ed.prefix(recv.0, "*", "T1.pin_set");
                        self.ed.replace((recv.1, a.0), " = ", "T1.pin_set");
                        self.ed.replace((a.1, whole.1), "", "T1.pin_set");
                        self.visit_expr(&mc.receiver);
                        self.visit_expr(&mc.args[0]);
                        return;
                    }
                    "expect" if mc.args.len() == 1 => {
                        self.fire("T3.expect");
                        self.ed.replace((recv.1, whole.1), ".unwrap()", "T3.expect");
                        self.visit_expr(&mc.receiver);
                        return;
                    }
                    "wake_by_ref" if mc.args.is_empty() => {
                        // T12: cx.waker().wake_by_ref() -> task_wake(cx)
                        if let syn::Expr::MethodCall(inner) = &*mc.receiver {
                            if inner.method == "waker" && inner.args.is_empty() {
                                let cxr = self.r(inner.receiver.span());
                                let cxs = self.src.slice(cxr).to_string();
                                self.fire("T12.task_wake");
                                self.ed.replace(whole, &format!("task_wake({cxs})"), "T12.task_wake");
                                return;
                            }
                        }
                    }
                    _ => {}
                }
                visit::visit_expr(self, e);
            }
            syn::Expr::Field(f) => {
                // T2: this.f -> (&mut self.f)
                if let (Some(pv), syn::Member::Named(_)) = (&self.proj_var, &f.member) {
                    if expr_is_path(&f.base, pv) {
                        self.fire("T2.proj_field");
                        let whole = self.r(e.span());
                        let b = self.r(f.base.span());
                        self.ed.prefix(whole.0, "(&mut ", "T2.proj_field");
                        self.ed.replace(b, "self", "T2.proj_field");
                        self.ed.suffix(whole.1, ")", "T2.proj_field");
                        return;
                    }
                }
                visit::visit_expr(self, e);
            }
            syn::Expr::Unary(u) => {
                // T10: *x -> self.x for destructured names
                if let syn::UnOp::Deref(_) = u.op {
                    if let syn::Expr::Path(p) = &*u.expr {
                        if let Some(id) = p.path.get_ident() {
                            if self.destructured.contains(&id.to_string()) {
                                self.fire("T10.destructure");
                                let whole = self.r(e.span());
                                self.ed.replace(whole, &format!("self.{id}"), "T10.destructure");
                                return;
                            }
                        }
                    }
                }
                visit::visit_expr(self, e);
            }
            syn::Expr::Path(p) => {
                if p.qself.is_none() {
                    if let Some(id) = p.path.get_ident() {
                        if let Some(f) = self.aliases.get(&id.to_string()).cloned() {
                            let whole = self.r(e.span());
                            if f.is_empty() {
                                self.fire("T10.self_alias");
                                self.ed.replace(whole, "self", "T10.self_alias");
                            } else {
                                self.fire("T2.alias");
                                self.ed.replace(whole, &format!("(&mut self.{f})"), "T2.alias");
                            }
                            return;
                        }
                        if self.destructured.contains(&id.to_string()) {
                            // receiver / index base position: self.x ; elsewhere (&mut self.x) -- decided by parent, default place
                            self.fire("T10.destructure");
                            let whole = self.r(e.span());
                            self.ed.replace(whole, &format!("self.{id}"), "T10.destructure");
                            return;
                        }
                    }
                }
                visit::visit_expr(self, e);
            }
            syn::Expr::Binary(b) => {
                // T7: Wrapping<usize> field `+= 1` / `-= 1`
                let is_add = matches!(b.op, syn::BinOp::AddAssign(_));
                let is_sub = matches!(b.op, syn::BinOp::SubAssign(_));
                if is_add || is_sub {
                    if let syn::Expr::Field(f) = &*b.left {
                        if let syn::Member::Named(id) = &f.member {
                            if self.facts.wrapping_fields.contains(&id.to_string()) {
                                self.fire("T7.wrapping");
                                let l = self.r(b.left.span());
                                let rr = self.r(b.right.span());
                                let whole = self.r(e.span());
                                let mut lt = self.src.slice(l).to_string();
                                for (al, tgt) in self.aliases.iter() {
                                    if tgt.is_empty() && lt.starts_with(&format!("{al}.")) {
                                        lt = format!("self.{}", &lt[al.len() + 1..]);
                                    }
                                }
                                if let Some(pv) = &self.proj_var {
                                    if lt.starts_with(&format!("{pv}.")) {
                                        lt = format!("self.{}", &lt[pv.len() + 1..]);
                                    }
                                }
                                let m = if is_add { "wrapping_add" } else { "wrapping_sub" };
                                self.ed.replace((l.1, rr.0), &format!(".0 = {lt}.0.{m}("), "T7.wrapping");
                                self.ed.suffix(whole.1, ")", "T7.wrapping");
                                self.visit_expr(&b.left);
                                return;
                            }
                        }
                    }
                }
                visit::visit_expr(self, e);
            }
            syn::Expr::Try(t) if self.poll_try => {
                // T3: `e?` on Poll<Option<Result<T, E>>>  (core's Try impl, written out)
                self.fire("T3.poll_try");
                let inner = self.r(t.expr.span());
                let whole = self.r(e.span());
                self.ed.prefix(inner.0, "(match ", "T3.poll_try");
                self.ed.replace((inner.1, whole.1), " { Poll::Ready(Some(Ok(vx_x))) => Poll::Ready(Some(vx_x)), Poll::Ready(Some(Err(vx_e))) => return Poll::Ready(Some(Err(vx_e))), Poll::Ready(None) => Poll::Ready(None), Poll::Pending => Poll::Pending })", "T3.poll_try");
                self.visit_expr(&t.expr);
            }
            _ => visit::visit_expr(self, e),
        }
    }
}

// ------------------------------------------------------------------------------------------------
// output

struct Out {
    text: String,
    origins: Vec<Origin>, // per line (line i = index i, 0-based)
    fn_ranges: Vec<serde_json::Value>,
    clauses: Vec<serde_json::Value>,
    edits_log: Vec<serde_json::Value>,
    anchor_shifted: Vec<serde_json::Value>,
    anchor_lost: Vec<serde_json::Value>,
}
impl Out {
    fn new() -> Out {
        Out { text: String::new(), origins: vec![Origin::Gen], fn_ranges: vec![], clauses: vec![], edits_log: vec![], anchor_shifted: vec![], anchor_lost: vec![] }
    }
    fn cur_line(&self) -> usize {
        self.origins.len() // 1-based number of the line currently being written
    }
    fn push(&mut self, s: &str, org: Origin) {
        for (k, part) in s.split('\n').enumerate() {
            if k > 0 {
                self.text.push('\n');
                self.origins.push(org.clone());
            }
            self.text.push_str(part);
        }
    }
    fn push_rendered(&mut self, r: &Rendered) {
        let mut first = true;
        for (k, part) in r.text.split('\n').enumerate() {
            if !first {
                self.text.push('\n');
                self.origins.push(r.origins[k].clone());
            }
            first = false;
            self.text.push_str(part);
        }
    }
    /// push a clause block (requires/ensures text); labels are recorded by scan_labels.
    fn push_clauses(&mut self, block: &Block, vspec: &str, fnkey: &str, kind: &str, _indent: &str) {
        for (k, line) in block.text.lines().enumerate() {
            self.push(&format!("\n{}", line.trim_end()), Origin::Splice { tag: format!("{vspec}:{}:{fnkey}:{kind}", block.line + k) });
        }
    }
}

fn emit_type(src: &Src, facts: &Facts, name: &str, opts: &[String], out: &mut Out) -> Result<(), String> {
    // find struct / enum (top-level or inside pin_project!)
    for it in &src.ast.items {
        match it {
            syn::Item::Enum(en) if en.ident == name => {
                let g = src.slice(src.range(en.generics.span())).to_string();
                let l = src.line_of(src.range(en.span()).0);
                let mut s = format!("\npub enum {name}{g} {{\n");
                for v in &en.variants {
                    let mut rw = new_rw(src, facts);
                    rw.visit_variant(v);
                    let r = render(src, src.range(v.span()), &rw.ed)?;
                    let _ = writeln!(s, "    {},", r.text);
                }
                s.push_str("}\n");
                out.push(&s, Origin::Src { file: src.rel.clone(), line: l });
                return Ok(());
            }
            _ => {}
        }
    }
    for (st, _) in structs_in_file(&src.ast) {
        if st.ident != name {
            continue;
        }
        let l = src.line_of(src.range(st.ident.span()).0);
        let mut rwg = new_rw(src, facts);
        rwg.visit_generics(&st.generics);
        let gr = src.range(st.generics.span());
        let g = if st.generics.params.is_empty() { String::new() } else { render(src, gr, &rwg.ed)?.text };
        let wc = match &st.generics.where_clause {
            Some(w) => format!(" {}", src.slice(src.range(w.span()))),
            None => String::new(),
        };
        let mut s = String::new();
        for o in opts {
            if let Some(a) = o.strip_prefix("attr=") {
                let _ = writeln!(s, "\n#[{a}]");
            }
        }
        let _ = write!(s, "\npub struct {name}{g}{wc} {{\n");
        for f in st.fields.iter() {
            let Some(id) = &f.ident else { return Err(format!("tuple struct `{name}` not supported")) };
            let mut rw = new_rw(src, facts);
            rw.visit_type(&f.ty);
            let r = render(src, src.range(f.ty.span()), &rw.ed)?;
            let _ = writeln!(s, "    pub {id}: {},", r.text);
        }
        s.push_str("}\n");
        out.push(&s, Origin::Src { file: src.rel.clone(), line: l });
        return Ok(());
    }
    Err(format!("type `{name}` not found in {}", src.rel))
}

/// Copy a whole top-level item (trait / mod / trait impl) with the type-level rewrites applied.
/// `use core::future::Future` / `use futures_core::Stream` inside it are redirected to the preamble
/// traits of the same name (T11).
fn emit_item(src: &Src, facts: &Facts, kind: &str, name: &str, out: &mut Out) -> Result<(), String> {
    if kind == "fnconst" {
        // `item fnconst <CONST> as <NEW>`: a constant declared INSIDE a function body of this file is re-emitted at module
        // level under a new name, so that contracts can speak about "the constant the code uses" instead of a literal
        let mut it = name.split_whitespace();
        let (cname, newname) = match (it.next(), it.next(), it.next()) { (Some(c), Some("as"), Some(n)) => (c, n), _ => return Err(format!("item fnconst `{name}`: expected `<CONST> as <NEW>`")) };
        struct FindConst<'b> { name: &'b str, found: Vec<(String, String)> , src: &'b Src }
        impl<'b, 'ast> Visit<'ast> for FindConst<'b> {
            fn visit_item_const(&mut self, c: &'ast syn::ItemConst) {
                if c.ident == self.name {
                    let ty = self.src.slice(self.src.range(c.ty.span())).to_string();
                    let ex = self.src.slice(self.src.range(c.expr.span())).to_string();
                    self.found.push((ty, ex));
                }
            }
            fn visit_item_mod(&mut self, m: &'ast syn::ItemMod) {
                if is_cfg_test(&m.attrs) { return; }
                visit::visit_item_mod(self, m);
            }
        }
        let mut f = FindConst { name: cname, found: vec![], src };
        f.visit_file(&src.ast);
        f.found.sort(); f.found.dedup();
        if f.found.len() != 1 {
            return Err(format!("item fnconst {cname}: lost anchor: {} distinct declarations of that constant in {}", f.found.len(), src.rel));
        }
        let (ty, ex) = &f.found[0];
        out.push(&format!("\npub const {newname}: {ty} = {ex};\n"), Origin::Gen);
        return Ok(());
    }
    for it in &src.ast.items {
        let (ok, start) = match (kind, it) {
            ("trait", syn::Item::Trait(t)) if t.ident == name => (true, src.range(t.trait_token.span()).0),
            ("mod", syn::Item::Mod(m)) if m.ident == name => (true, src.range(m.mod_token.span()).0),
            ("impl", syn::Item::Impl(i)) => {
                let tn = i.trait_.as_ref().and_then(|(_, p, _)| p.segments.last().map(|s| s.ident.to_string()));
                (tn.as_deref() == Some(name), src.range(i.impl_token.span()).0)
            }
            ("const", syn::Item::Const(c)) if c.ident == name => (true, src.range(c.const_token.span()).0),
            _ => (false, 0),
        };
        if !ok {
            continue;
        }
        let end = src.range(it.span()).1;
        let mut rw = new_rw(src, facts);
        rw.visit_item(it);
        if !rw.errors.is_empty() {
            return Err(format!("item {kind} {name}: {}", rw.errors.join("; ")));
        }
        // drop doc attributes inside the item
        struct Docs<'b> { src: &'b Src, v: Vec<(usize, usize)> }
        impl<'b, 'ast> Visit<'ast> for Docs<'b> {
            fn visit_attribute(&mut self, a: &'ast syn::Attribute) {
                let r = self.src.range(a.span());
                if r.0 >= r.1 { return; }
                self.v.push(r);
            }
        }
        let mut d = Docs { src, v: vec![] };
        d.visit_item(it);
        for r in d.v {
            if r.0 >= start {
                rw.ed.replace(r, "", "T9.attr");
            }
        }
        let mut r = render(src, (start, end), &rw.ed)?;
        let before = r.text.clone();
        r.text = r.text.replace("use core::future::Future;", "use super::Future;").replace("use futures_core::Stream;", "use super::Stream;");
        if r.text != before {
            out.edits_log.push(json!({"fn": format!("item {kind} {name}"), "file": src.rel, "line": src.line_of(start), "rule": "T11.preamble_trait", "from": "use core::future::Future / futures_core::Stream", "to": "use super::{Future,Stream}"}));
        }
        out.push(if kind == "impl" { "\n" } else { "\npub " }, Origin::Gen);
        out.push_rendered(&r);
        out.push("\n", Origin::Gen);
        return Ok(());
    }
    Err(format!("item `{kind} {name}` not found in {} (lost anchor)", src.rel))
}

fn new_rw<'a>(src: &'a Src, facts: &'a Facts) -> Rw<'a> {
    Rw {
        src,
        facts,
        ed: Edits::default(),
        fired: BTreeSet::new(),
        errors: vec![],
        self_is_pin: false,
        proj_var: None,
        destructured: BTreeSet::new(),
        assoc: HashMap::new(),
        poll_try: false,
        returns: vec![],
        loops: vec![],
        panics: vec![],
        arms: vec![],
        calls: vec![],
        stmt_stack: vec![],
        closures: vec![],
        aliases: HashMap::new(),
        tail_loop_depth: 0,
        tail_loop_start: None,
        for_iters: vec![],
        outline: HashMap::new(),
        if_count: 0,
        if_ends: vec![],
        ready_splices: HashMap::new(),
        ready_count: 0,
    }
}

struct EmitCtx<'a> {
    probe_shard: Option<(usize, usize)>,
    probe_prop: Option<String>,
    probes: bool,
    probe_counter: &'a mut usize,
    probe_list: &'a mut Vec<serde_json::Value>,
}

fn emit_fn(src: &Src, facts: &Facts, spec: &FnSpec, vspec_name: &str, out: &mut Out, ctx: &mut EmitCtx) -> Result<(), String> {
    let loc = locate(src, &spec.key)?;
    let mut rw = new_rw(src, facts);
    rw.assoc = loc.assoc.clone();
    rw.poll_try = spec.opts.contains("poll-try");
    for (pos, b) in spec.at.iter() {
        if let Some(k) = pos.strip_prefix("ready-pending ") {
            if let Ok(k) = k.trim().parse::<usize>() {
                rw.ready_splices.insert(k, b.text.clone());
            }
        }
        if let Some(k) = pos.strip_prefix("outline-if ") {
            let mut it = k.split_whitespace();
            let n = it.next().and_then(|x| x.parse::<usize>().ok());
            let keep = if it.next() == Some("keep") { it.next().and_then(|x| x.parse::<usize>().ok()).unwrap_or(0) } else { 0 };
            if let Some(n) = n {
                rw.outline.insert(n, (b.text.trim().trim_end_matches(';').to_string(), keep));
            }
        }
    }

    // ---- signature
    let sig = loc.sig;
    // receiver
    if let Some(syn::FnArg::Receiver(rc)) = sig.inputs.first() {
        if rc.colon_token.is_some() {
            // typed receiver: only `self: Pin<&mut Self>` is in the table
            let ty_txt: String = src.slice(src.range(rc.ty.span())).split_whitespace().collect();
            if ty_txt == "Pin<&mutSelf>" {
                rw.self_is_pin = true;
                rw.fire("T1.pin_receiver");
                rw.ed.replace(src.range(rc.span()), "&mut self", "T1.pin_receiver");
            } else {
                return Err(format!("{}: receiver type `{ty_txt}` outside the rewrite table", spec.key));
            }
        }
    }
    for a in sig.inputs.iter() {
        if let syn::FnArg::Typed(pt) = a {
            rw.visit_type(&pt.ty);
        }
    }
    rw.visit_generics(&sig.generics);
    let has_ret = matches!(&sig.output, syn::ReturnType::Type(..));
    if let syn::ReturnType::Type(_, ty) = &sig.output {
        rw.visit_type(ty);
        let r = src.range(ty.span());
        rw.ed.prefix(r.0, &format!("({}: ", spec.ret), "V.named_return");
        rw.ed.suffix(r.1, ")", "V.named_return");
    }
    let body_open = src.range(loc.block.brace_token.span.open());
    let body_close = src.range(loc.block.brace_token.span.close());
    let sig_range = (src.range(sig.fn_token.span()).0, body_open.0);

    // ---- body
    if spec.mode == "verify" {
        if let Some(syn::Stmt::Expr(syn::Expr::Loop(l), None)) = loc.block.stmts.last() {
            rw.tail_loop_start = Some(src.range(l.span()).0);
        }
        rw.visit_block(loc.block);
    }
    if !rw.errors.is_empty() {
        return Err(format!("{}: {}", spec.key, rw.errors.join("; ")));
    }

    // ---- splices
    let tag = |pos: &str, b: &Block| format!("{vspec_name}:{}:{}:at {pos}", b.line, spec.key);
    let mut probe = |ctx: &mut EmitCtx, what: String| -> String {
        if !ctx.probes || spec.opts.contains("no-probe") {
            return String::new();
        }
        if let Some(pp) = &ctx.probe_prop {
            if !spec.props.iter().any(|x| x == pp) {
                return String::new();
            }
        }
        let k = *ctx.probe_counter;
        *ctx.probe_counter += 1;
        if let Some((n, i)) = ctx.probe_shard {
            if k % n != i {
                return String::new();
            }
        }
        ctx.probe_list.push(json!({"id": k, "fn": spec.key, "pos": what}));
        format!(" proof {{ if vx_probe({k}) {{ assert(false); }} }} ")
    };
    if spec.mode == "verify" {
        // entry
        let mut entry_txt = String::new();
        if let Some(b) = spec.at.get("entry") {
            entry_txt.push_str(&format!("\n{}", b.text));
            rw.ed.splice(body_open.1, &entry_txt, &tag("entry", b), false);
        }
        let p = probe(ctx, "entry".into());
        if !p.is_empty() {
            rw.ed.splice(body_open.1, &p, "probe", false);
        }
        // end: before the tail expression / at the end of the body
        let end_at = match loc.block.stmts.last() {
            Some(syn::Stmt::Expr(e, None)) if has_ret => src.range(e.span()).0,
            _ => body_close.0,
        };
        if let Some(b) = spec.at.get("end") {
            rw.ed.splice(end_at, &format!("{}\n", b.text), &tag("end", b), true);
        }
        if !spec.opts.contains("no-end-probe") {
            let p = probe(ctx, "end".into());
            if !p.is_empty() {
                rw.ed.splice(end_at, &p, "probe", true);
            }
        }
        // exits
        let returns = rw.returns.clone();
        for (k, r) in returns.iter().enumerate() {
            let key = format!("exit {k}");
            let mut txt = String::new();
            if let Some(b) = spec.at.get(&key) {
                txt.push_str(&b.text);
            }
            let p = if spec.opts.contains(&format!("no-probe-exit-{k}")) { String::new() } else { probe(ctx, key.clone()) };
            if !txt.is_empty() || !p.is_empty() {
                let t = match spec.at.get(&key) {
                    Some(b) => tag(&key, b),
                    None => "probe".into(),
                };
                rw.ed.splice(r.0, &format!("{{ {txt}{p}"), &t, false);
                rw.ed.suffix(r.1, " }", "splice");
            }
        }
        // panics
        let panics = rw.panics.clone();
        for (k, r) in panics.iter().enumerate() {
            let key = format!("panic {k}");
            if let Some(b) = spec.at.get(&key) {
                rw.ed.splice(r.0, &format!("{{ {}", b.text), &tag(&key, b), false);
                rw.ed.suffix(r.1, " }", "splice");
            }
        }
        // loops
        let loops = rw.loops.clone();
        for (k, (open, close, _)) in loops.iter().enumerate() {
            if let Some(b) = spec.loops.get(&k) {
                rw.ed.splice(*open, &format!("\n{}", b.text), &format!("{vspec_name}:{}:{}:loop {k}", b.line, spec.key), true);
            }
            let key = format!("loop-end {k}");
            if let Some(b) = spec.at.get(&key) {
                rw.ed.splice(*close, &format!("{}\n", b.text), &tag(&key, b), true);
            }
        }
        for (k, (open, _close, _)) in loops.iter().enumerate() {
            let key = format!("loop-begin {k}");
            if let Some(b) = spec.at.get(&key) {
                rw.ed.splice(*open + 1, &format!("\n{}", b.text), &tag(&key, b), false);
            }
        }
        for (ord, at) in rw.for_iters.clone() {
            // name the ghost iterator of a for loop so that invariants can mention its bounds
            if let Some(nm) = spec.opts.iter().find_map(|o| o.strip_prefix(&format!("loop-iter-{ord}="))) {
                rw.ed.splice(at, &format!("{nm}: "), "annotation:loop-iter", false);
            }
        }
        let arms = rw.arms.clone();
        for (k, (st, en, is_block)) in arms.iter().enumerate() {
            let key = format!("arm {k}");
            if let Some(b) = spec.at.get(&key) {
                if *is_block {
                    rw.ed.splice(*st + 1, &format!("\n{}", b.text), &tag(&key, b), false);
                } else {
                    rw.ed.splice(*st, &format!("{{\n{}", b.text), &tag(&key, b), false);
                    rw.ed.suffix(*en, " }", "splice");
                }
            }
        }
        for (k, end) in rw.if_ends.clone() {
            let key = format!("after-if {k}");
            if let Some(b) = spec.at.get(&key) {
                rw.ed.splice(end, &format!("\n{}", b.text), &tag(&key, b), true);
            }
        }
        let closures = rw.closures.clone();
        for (k, (hdr_end, bs, be, is_block)) in closures.iter().enumerate() {
            let key = format!("closure {k}");
            if let Some(b) = spec.at.get(&key) {
                // contract of the k-th closure: text goes between `|params|` and the body
                let t = b.text.trim_end();
                if *is_block {
                    rw.ed.splice(*hdr_end, &format!(" {t} "), &tag(&key, b), true);
                } else {
                    rw.ed.splice(*hdr_end, &format!(" {t} {{ "), &tag(&key, b), true);
                    let _ = bs;
                    rw.ed.suffix(*be, " }", "splice");
                }
            }
        }
        let calls = rw.calls.clone();
        for (pos, b) in spec.at.iter() {
            if let Some(rest) = pos.strip_prefix("after-call ") {
                let mut it = rest.split_whitespace();
                let name = it.next().unwrap_or("");
                let n: usize = it.next().and_then(|x| x.parse().ok()).unwrap_or(0);
                let hits: Vec<&(String, usize, bool)> = calls.iter().filter(|c| c.0 == name).collect();
                match hits.get(n) {
                    Some((_, end, false)) => rw.ed.splice(*end, &format!("\n{}", b.text), &tag(pos, b), true),
                    Some((_, _, true)) => return Err(format!("{}: lost anchor: call `{name}` #{n} is in tail position", spec.key)),
                    None => return Err(format!("{}: lost anchor: call `{name}` #{n} not found", spec.key)),
                }
            }
        }
        for k in spec.loops.keys() {
            if *k >= loops.len() {
                return Err(format!("{}: lost anchor: contract names loop {k} but the function has {} loops", spec.key, loops.len()));
            }
        }
        for pos in spec.at.keys() {
            let ok = match pos.split_once(' ') {
                None => pos == "entry" || pos == "end" || pos == "impl-items",
                Some(("exit", n)) => n.parse::<usize>().map(|n| n < returns.len()).unwrap_or(false),
                Some(("panic", n)) => n.parse::<usize>().map(|n| n < panics.len()).unwrap_or(false),
                Some(("loop-end", n)) => n.parse::<usize>().map(|n| n < loops.len()).unwrap_or(false),
                Some(("loop-begin", n)) => n.parse::<usize>().map(|n| n < loops.len()).unwrap_or(false),
                Some(("arm", n)) => n.parse::<usize>().map(|n| n < arms.len()).unwrap_or(false),
                Some(("after-call", _)) => true,
                Some(("ready-pending", n)) => n.parse::<usize>().map(|n| n < rw.ready_count).unwrap_or(false),
                Some(("after-if", n)) => n.parse::<usize>().map(|n| n < rw.if_count).unwrap_or(false),
                Some(("outline-if", n)) => n.split_whitespace().next().and_then(|x| x.parse::<usize>().ok()).map(|n| n < rw.if_count).unwrap_or(false),
                Some(("closure", n)) => n.parse::<usize>().map(|n| n < closures.len()).unwrap_or(false),
                _ => false,
            };
            if !ok {
                return Err(format!("{}: lost anchor: splice position `{pos}` does not exist in the function", spec.key));
            }
        }
        // declared structure must match (a changed number of exits/loops means the sidecar no longer fits)
        if let Some(n) = spec.opts.iter().find_map(|o| o.strip_prefix("returns=")) {
            if n.parse::<usize>().ok() != Some(returns.len()) {
                out.anchor_shifted.push(json!({"fn": spec.key, "what": format!("sidecar expects {n} `return`s, function has {}", returns.len())}));
            }
        }
        if let Some(n) = spec.opts.iter().find_map(|o| o.strip_prefix("arms=")) {
            if n.parse::<usize>().ok() != Some(arms.len()) {
                out.anchor_shifted.push(json!({"fn": spec.key, "what": format!("sidecar expects {n} match arms, function has {}", arms.len())}));
            }
        }
        if let Some(n) = spec.opts.iter().find_map(|o| o.strip_prefix("loops=")) {
            if n.parse::<usize>().ok() != Some(loops.len()) {
                out.anchor_shifted.push(json!({"fn": spec.key, "what": format!("sidecar expects {n} loops, function has {}", loops.len())}));
            }
        }
    }

    // ---- emit
    let fn_line_start = out.cur_line() + 1;
    // impl header
    if let Some(imp) = loc.imp {
        let mut hrw = new_rw(src, facts);
        hrw.visit_generics(&imp.generics);
        hrw.visit_type(&imp.self_ty);
        let hstart = src.range(imp.impl_token.span()).0;
        let hend = src.range(imp.brace_token.span.open()).0;
        if let Some((_, p, for_tok)) = &imp.trait_ {
            if !spec.opts.contains("keep-trait") {
                let ps = src.range(p.span()).0;
                let fe = src.range(for_tok.span()).1;
                hrw.ed.replace((ps, fe), "", "T5.trait_impl_as_inherent");
                rw.fire("T5.trait_impl_as_inherent");
            }
        }
        let mut h = render(src, (hstart, hend), &hrw.ed)?;
        for b in &spec.extra_bounds {
            // bound `F: Child` -> appended to where clause
            if h.text.contains("where") {
                h.text = format!("{}, {b} ", h.text.trim_end().trim_end_matches(','));
            } else {
                h.text = format!("{} where {b} ", h.text.trim_end());
            }
        }
        out.push("\n", Origin::Gen);
        out.push_rendered(&h);
        out.push("{\n", Origin::Gen);
        if let Some(b) = spec.at.get("impl-items") {
            for (k, pl) in b.text.lines().enumerate() {
                out.push(&format!("{pl}\n"), Origin::Splice { tag: format!("{vspec_name}:{}:{}:impl-items", b.line + k, spec.key) });
            }
        }
    } else {
        out.push("\n", Origin::Gen);
    }
    if spec.mode == "assume" {
        out.push("#[verifier::external_body]\n", Origin::Gen);
    }
    for o in &spec.opts {
        if let Some(a) = o.strip_prefix("attr=") {
            out.push(&format!("#[{a}]\n"), Origin::Gen);
        }
    }
    if !spec.opts.contains("keep-trait") {
        out.push("pub ", Origin::Gen);
    }
    let mut sig_r = render(src, sig_range, &rw.ed)?;
    for (from, to) in &spec.sig_replace {
        if !sig_r.text.contains(from.as_str()) {
            return Err(format!("{}: lost anchor: sig-replace `{from}` not found in signature", spec.key));
        }
        sig_r.text = sig_r.text.replace(from.as_str(), to);
        rw.fire("V.sig_replace");
    }
    // trim trailing whitespace of the signature
    while sig_r.text.ends_with(char::is_whitespace) {
        sig_r.text.pop();
    }
    sig_r.origins.truncate(sig_r.text.matches('\n').count() + 1);
    out.push_rendered(&sig_r);
    if !has_ret && spec.ensures.as_ref().map(|b| b.text.contains(&format!("{}", spec.ret))).unwrap_or(false) {
        // unit functions: no named return needed
    }
    if let Some(b) = &spec.requires {
        out.push("\n    requires", Origin::Gen);
        out.push_clauses(b, vspec_name, &spec.key, "requires", "");
    }
    if let Some(b) = &spec.recommends {
        out.push("\n    recommends", Origin::Gen);
        out.push_clauses(b, vspec_name, &spec.key, "recommends", "");
    }
    if let Some(b) = &spec.ensures {
        out.push("\n    ensures", Origin::Gen);
        out.push_clauses(b, vspec_name, &spec.key, "ensures", "");
    }
    out.push("\n", Origin::Gen);
    if spec.mode == "assume" {
        out.push("{ unimplemented!() }\n", Origin::Gen);
    } else {
        let body_r = render(src, (body_open.0, body_close.1), &rw.ed)?;
        // record invariant clauses inside loop splices: labels are handled by a post-pass (scan_labels)
        out.push_rendered(&body_r);
        out.push("\n", Origin::Gen);
    }
    if loc.imp.is_some() {
        out.push("}\n", Origin::Gen);
    }
    let fn_line_end = out.cur_line();
    out.fn_ranges.push(json!({
        "fn": spec.key, "file": src.rel, "src_line": src.line_of(sig_range.0), "mode": spec.mode, "props": spec.props,
        "primary": if spec.primary.is_empty() { spec.props.clone() } else { spec.primary.clone() },
        "line_start": fn_line_start, "line_end": fn_line_end, "rules_fired": rw.fired.iter().collect::<Vec<_>>(),
        "returns": rw.returns.len(), "loops": rw.loops.len(),
    }));
    for e in rw.ed.v.iter().filter(|e| e.splice.is_none() && e.rule != "splice") {
        out.edits_log.push(json!({"fn": spec.key, "file": src.rel, "line": src.line_of(e.start), "rule": e.rule,
            "from": src.text[e.start..e.end].to_string(), "to": e.text}));
    }
    Ok(())
}

/// Post-pass over the whole output: `[label: P,..]` markers at the start of a line (contract
/// clauses, loop invariants, assertions in proof splices) are removed and recorded with the line
/// range of the clause; `//@ [label: P,..]` comment lines (preamble) label the next non-empty line.
fn scan_labels(out: &mut Out) {
    fn parse_label(t: &str) -> Option<(String, Vec<String>, usize)> {
        if !t.starts_with('[') {
            return None;
        }
        let c = t.find(']')?;
        let (lab, props) = t[1..c].split_once(':')?;
        let lab = lab.trim();
        if lab.is_empty() || !lab.chars().all(|ch| ch.is_alphanumeric() || "._-=<>".contains(ch)) {
            return None;
        }
        let props: Vec<String> = props.split(',').map(|s| s.trim().to_string()).filter(|s| !s.is_empty()).collect();
        if props.is_empty() || !props.iter().all(|p| p.starts_with('C') && p[1..].chars().all(|c| c.is_ascii_digit())) {
            return None;
        }
        Some((lab.to_string(), props, c))
    }
    let mut new_text = String::new();
    let lines: Vec<String> = out.text.split('\n').map(|s| s.to_string()).collect();
    let mut pending: Option<(String, Vec<String>)> = None;
    let mut open: Option<(String, Vec<String>, usize, &'static str)> = None;
    let is_boundary = |t: &str| {
        t.is_empty() || t.starts_with('{') || t.starts_with('}') || t.starts_with("requires") || t.starts_with("ensures") || t.starts_with("invariant")
            || t.starts_with("decreases") || t.starts_with("recommends") || t.starts_with("pub ") || t.starts_with("fn ") || t.starts_with("proof ") || t.starts_with("//")
    };
    for (k, line) in lines.iter().enumerate() {
        let lno = k + 1;
        let t = line.trim_start();
        let mut emitted = line.clone();
        let mut started = false;
        if let Some(rest) = t.strip_prefix("//@") {
            if let Some((lab, props, _)) = parse_label(rest.trim()) {
                pending = Some((lab, props));
            }
        } else if let Some((lab, props, c)) = parse_label(t) {
            if let Some((l, p, s, kd)) = open.take() {
                out.clauses.push(json!({"label": l, "props": p, "kind": kd, "line_start": s, "line_end": lno - 1}));
            }
            open = Some((lab, props, lno, "clause"));
            started = true;
            let indent = &line[..line.len() - t.len()];
            emitted = format!("{indent}{}", t[c + 1..].trim_start());
        } else if let Some((lab, props)) = pending.take() {
            if !t.is_empty() {
                if let Some((l, p, s, kd)) = open.take() {
                    out.clauses.push(json!({"label": l, "props": p, "kind": kd, "line_start": s, "line_end": lno - 1}));
                }
                open = Some((lab, props, lno, "preamble"));
                started = true;
            } else {
                pending = Some((lab, props));
            }
        }
        if !started && open.is_some() && is_boundary(t) {
            let (l, p, s, kd) = open.take().unwrap();
            out.clauses.push(json!({"label": l, "props": p, "kind": kd, "line_start": s, "line_end": lno - 1}));
        }
        new_text.push_str(&emitted);
        if k + 1 < lines.len() {
            new_text.push('\n');
        }
    }
    if let Some((l, p, s, kd)) = open.take() {
        out.clauses.push(json!({"label": l, "props": p, "kind": kd, "line_start": s, "line_end": lines.len()}));
    }
    out.text = new_text;
}


// ------------------------------------------------------------------------------------------------
// crate-wide syntactic facts for the frame conditions (DESIGN.md: c06.unsafe_frame, c08.slots_never_reassigned,
// c12.no_poll_outside_loop, c14.wrappers_do_not_wake, c17.merge_default, c18 call sets)

struct FactScan<'a> {
    src: &'a Src,
    cur_fn: Vec<String>,
    unsafe_sites: Vec<serde_json::Value>,
    wake_sites: Vec<serde_json::Value>,
    poll_sites: Vec<serde_json::Value>,
    slots_writes: Vec<serde_json::Value>,
    mark_sites: Vec<serde_json::Value>,
    atomic_sites: Vec<serde_json::Value>,
    calls: BTreeMap<String, BTreeSet<String>>,
    call_seq: BTreeMap<String, Vec<(usize, String)>>,
    macros: BTreeMap<String, BTreeSet<String>>,
    in_test: bool,
}

impl<'a> FactScan<'a> {
    fn here(&self, sp: Span) -> (String, usize) {
        (self.src.rel.clone(), sp.start().line)
    }
    fn fname(&self) -> String {
        self.cur_fn.last().cloned().unwrap_or_else(|| "<item>".into())
    }
    fn site(&mut self, kind: &str, sp: Span) {
        let (f, l) = self.here(sp);
        let v = json!({"file": f, "line": l, "fn": self.fname(), "kind": kind});
        self.unsafe_sites.push(v);
    }
    fn call(&mut self, name: &str) {
        let f = self.fname();
        self.calls.entry(f).or_default().insert(name.to_string());
    }
    fn call_at(&mut self, name: &str, sp: Span) {
        let f = self.fname();
        let off = self.src.off(sp.start());
        self.call_seq.entry(f).or_default().push((off, name.to_string()));
    }
}

fn is_cfg_test(attrs: &[syn::Attribute]) -> bool {
    attrs.iter().any(|a| a.path().is_ident("cfg") && a.meta.require_list().map(|l| l.tokens.to_string().contains("test")).unwrap_or(false))
}

impl<'a, 'ast> Visit<'ast> for FactScan<'a> {
    fn visit_item_mod(&mut self, m: &'ast syn::ItemMod) {
        if is_cfg_test(&m.attrs) {
            return;
        }
        visit::visit_item_mod(self, m);
    }
    fn visit_item_fn(&mut self, f: &'ast syn::ItemFn) {
        if is_cfg_test(&f.attrs) { return; }
        let outer = self.fname();
        let name = if self.cur_fn.is_empty() { format!("::{}", f.sig.ident) } else { format!("{outer}/{}", f.sig.ident) };
        self.cur_fn.push(name);
        if f.sig.unsafety.is_some() { self.site("unsafe fn", f.sig.ident.span()); }
        visit::visit_item_fn(self, f);
        self.cur_fn.pop();
    }
    fn visit_item_impl(&mut self, imp: &'ast syn::ItemImpl) {
        let ty = impl_self_name(imp).unwrap_or_else(|| "?".into());
        let tr = imp.trait_.as_ref().and_then(|(_, p, _)| p.segments.last().map(|s| s.ident.to_string()));
        if imp.unsafety.is_some() {
            let (f, l) = self.here(imp.impl_token.span());
            self.unsafe_sites.push(json!({"file": f, "line": l, "fn": format!("impl {} for {ty}", tr.clone().unwrap_or_default()), "kind": "unsafe impl"}));
        }
        for ii in &imp.items {
            if let syn::ImplItem::Fn(f) = ii {
                let name = match &tr { Some(t) => format!("{t} for {ty}::{}", f.sig.ident), None => format!("{ty}::{}", f.sig.ident) };
                self.cur_fn.push(name);
                if f.sig.unsafety.is_some() { self.site("unsafe fn", f.sig.ident.span()); }
                self.visit_block(&f.block);
                self.cur_fn.pop();
            }
        }
    }
    fn visit_expr_unsafe(&mut self, u: &'ast syn::ExprUnsafe) {
        self.site("unsafe block", u.unsafe_token.span());
        visit::visit_expr_unsafe(self, u);
    }
    fn visit_macro(&mut self, m: &'ast syn::Macro) {
        let name = m.path.segments.last().map(|s| s.ident.to_string()).unwrap_or_default();
        let f = self.fname();
        self.macros.entry(f).or_default().insert(name.clone());
        // look inside expression macros we know
        if matches!(name.as_str(), "ready" | "debug_assert" | "debug_assert_eq" | "assert" | "assert_eq") {
            let parser = syn::punctuated::Punctuated::<syn::Expr, syn::Token![,]>::parse_terminated;
            if let Ok(args) = syn::parse::Parser::parse2(parser, m.tokens.clone()) {
                for a in args.iter() { self.visit_expr(a); }
            }
        }
    }
    fn visit_expr_call(&mut self, c: &'ast syn::ExprCall) {
        if let syn::Expr::Path(p) = &*c.func {
            let segs: Vec<String> = p.path.segments.iter().map(|s| s.ident.to_string()).collect();
            let full = segs.join("::");
            self.call(&full);
            self.call_at(&full, c.func.span());
            let last2 = if segs.len() >= 2 { format!("{}::{}", segs[segs.len() - 2], segs[segs.len() - 1]) } else { full.clone() };
            for k in ["Box::into_raw", "Box::from_raw", "Waker::from_raw", "mem::forget", "ptr::read", "ptr::write", "drop_in_place", "ManuallyDrop::new", "ManuallyDrop::drop", "ManuallyDrop::take", "MaybeUninit::uninit", "mem::transmute", "mem::zeroed"] {
                if last2 == k || full.ends_with(k) || (segs.len() == 1 && k.ends_with(&format!("::{}", segs[0])) && matches!(segs[0].as_str(), "drop_in_place" | "forget" | "transmute")) {
                    self.site(k, c.func.span());
                }
            }
            if matches!(last2.as_str(), "mem::swap" | "mem::replace" | "mem::take") || matches!(full.as_str(), "swap" | "replace" | "take") {
                let args = self.src.slice(self.src.range(c.args.span())).to_string();
                if args.contains("slots") {
                    let (f, l) = self.here(c.func.span());
                    self.slots_writes.push(json!({"file": f, "line": l, "fn": self.fname(), "what": format!("{last2}({args})")}));
                }
            }
            if matches!(segs.last().map(|s| s.as_str()), Some("fence") | Some("compiler_fence")) {
                let ords: Vec<String> = c.args.iter().filter_map(|a| {
                    let t: String = self.src.slice(self.src.range(a.span())).split_whitespace().collect();
                    let last = t.rsplit("::").next().unwrap_or("").to_string();
                    if matches!(last.as_str(), "Relaxed" | "Acquire" | "Release" | "AcqRel" | "SeqCst") { Some(last) } else { None }
                }).collect();
                let (f, l) = self.here(c.func.span());
                self.atomic_sites.push(json!({"file": f, "line": l, "fn": self.fname(), "op": segs.last().unwrap().clone(), "receiver": "", "orderings": ords}));
            }
            if segs.last().map(|s| s == "poll_fn").unwrap_or(false) && segs.len() == 1 {
                let (f, l) = self.here(c.func.span());
                self.poll_sites.push(json!({"file": f, "line": l, "fn": self.fname(), "callee": "poll_fn"}));
            }
        }
        visit::visit_expr_call(self, c);
    }
    fn visit_expr_method_call(&mut self, mc: &'ast syn::ExprMethodCall) {
        let m = mc.method.to_string();
        self.call(&format!(".{m}"));
        self.call_at(&format!(".{m}"), mc.method.span());
        match m.as_str() {
            "assume_init" | "assume_init_drop" | "assume_init_read" | "assume_init_mut" | "assume_init_ref" | "write" if m != "write" || self.src.slice(self.src.range(mc.receiver.span())).contains("output") => {
                self.site(&format!("MaybeUninit::{m}"), mc.method.span());
            }
            // `.notify()` on the registered task waker (DiatomicWaker) invokes the task waker just as `wake` does
            "notify" if self.src.slice(self.src.range(mc.receiver.span())).trim_end().ends_with("waker") => {
                let recv = self.src.slice(self.src.range(mc.receiver.span())).to_string();
                let (f, l) = self.here(mc.method.span());
                self.wake_sites.push(json!({"file": f, "line": l, "fn": self.fname(), "receiver": recv}));
            }
            "wake_by_ref" | "wake" => {
                let recv = self.src.slice(self.src.range(mc.receiver.span())).to_string();
                let (f, l) = self.here(mc.method.span());
                self.wake_sites.push(json!({"file": f, "line": l, "fn": self.fname(), "receiver": recv}));
            }
            "push" | "enqueue" if m == "enqueue" || {
                let r: String = self.src.slice(self.src.range(mc.receiver.span())).split_whitespace().collect();
                r == "shared" || r.ends_with(".shared") || (r == "self" && self.fname().starts_with("WakerList::"))
            } => {
                // a slot is put on the ready queue without its waker being invoked
                let recv: String = self.src.slice(self.src.range(mc.receiver.span())).split_whitespace().collect();
                let (f, l) = self.here(mc.method.span());
                self.mark_sites.push(json!({"file": f, "line": l, "fn": self.fname(), "callee": m, "receiver": recv}));
            }
            "load" | "store" | "swap" | "fetch_add" | "fetch_sub" | "fetch_or" | "fetch_and" | "fetch_xor" | "fetch_update" | "compare_exchange" | "compare_exchange_weak" | "compare_and_swap" | "fence"
                if self.src.slice(self.src.range(mc.args.span())).contains("Ordering::") || mc.args.iter().any(|a| { let t: String = self.src.slice(self.src.range(a.span())).split_whitespace().collect(); matches!(t.as_str(), "Relaxed" | "Acquire" | "Release" | "AcqRel" | "SeqCst") }) => {
                let recv: String = self.src.slice(self.src.range(mc.receiver.span())).split_whitespace().collect();
                let ords: Vec<String> = mc.args.iter().filter_map(|a| {
                    let t: String = self.src.slice(self.src.range(a.span())).split_whitespace().collect();
                    let last = t.rsplit("::").next().unwrap_or("").to_string();
                    if matches!(last.as_str(), "Relaxed" | "Acquire" | "Release" | "AcqRel" | "SeqCst") { Some(last) } else { None }
                }).collect();
                let (f, l) = self.here(mc.method.span());
                self.atomic_sites.push(json!({"file": f, "line": l, "fn": self.fname(), "op": m, "receiver": recv, "orderings": ords}));
            }
            "poll" | "poll_next" | "try_poll" | "try_poll_next" | "poll_inner" | "poll_inner_no_remove" => {
                let recv: String = self.src.slice(self.src.range(mc.receiver.span())).split_whitespace().collect();
                let (f, l) = self.here(mc.method.span());
                self.poll_sites.push(json!({"file": f, "line": l, "fn": self.fname(), "callee": m, "receiver": recv}));
            }
            _ => {}
        }
        visit::visit_expr_method_call(self, mc);
    }
    fn visit_expr_assign(&mut self, a: &'ast syn::ExprAssign) {
        let lhs: String = self.src.slice(self.src.range(a.left.span())).split_whitespace().collect();
        let rhs: String = self.src.slice(self.src.range(a.right.span())).split_whitespace().collect();
        self.call_at(&format!("={lhs}<-{rhs}"), a.eq_token.span());
        if lhs.ends_with(".slots") || lhs == "slots" {
            let (f, l) = self.here(a.left.span());
            self.slots_writes.push(json!({"file": f, "line": l, "fn": self.fname(), "what": format!("{lhs} = ..")}));
        }
        visit::visit_expr_assign(self, a);
    }
}

fn emit_facts(srcs: &HashMap<String, Src>, all: &[String], path: &Path) -> Result<(), String> {
    let mut unsafe_sites = vec![];
    let mut wake_sites = vec![];
    let mut poll_sites = vec![];
    let mut slots_writes = vec![];
    let mut mark_sites = vec![];
    let mut atomic_sites = vec![];
    let mut calls: BTreeMap<String, BTreeSet<String>> = BTreeMap::new();
    let mut macros: BTreeMap<String, BTreeSet<String>> = BTreeMap::new();
    let mut seqs: BTreeMap<String, Vec<String>> = BTreeMap::new();
    let mut impls: Vec<serde_json::Value> = vec![];
    let mut structs: Vec<serde_json::Value> = vec![];
    for rel in all {
        let src = &srcs[rel];
        let mut fs = FactScan { src, cur_fn: vec![], unsafe_sites: vec![], wake_sites: vec![], poll_sites: vec![], slots_writes: vec![], mark_sites: vec![], atomic_sites: vec![], calls: BTreeMap::new(), call_seq: BTreeMap::new(), macros: BTreeMap::new(), in_test: false };
        fs.visit_file(&src.ast);
        let _ = fs.in_test;
        unsafe_sites.extend(fs.unsafe_sites);
        wake_sites.extend(fs.wake_sites);
        poll_sites.extend(fs.poll_sites);
        slots_writes.extend(fs.slots_writes);
        mark_sites.extend(fs.mark_sites);
        atomic_sites.extend(fs.atomic_sites);
        for (k, v) in fs.calls { calls.entry(format!("{rel}:{k}")).or_default().extend(v); }
        for (k, v) in fs.macros { macros.entry(format!("{rel}:{k}")).or_default().extend(v); }
        for (k, mut v) in fs.call_seq { v.sort(); seqs.insert(format!("{rel}:{k}"), v.into_iter().map(|x| x.1).collect::<Vec<String>>()); }
        for it in &src.ast.items {
            if let syn::Item::Impl(imp) = it {
                let ty = impl_self_name(imp).unwrap_or_default();
                let tr = imp.trait_.as_ref().and_then(|(_, p, _)| p.segments.last().map(|s| s.ident.to_string()));
                let fns: Vec<String> = imp.items.iter().filter_map(|ii| if let syn::ImplItem::Fn(f) = ii { Some(f.sig.ident.to_string()) } else { None }).collect();
                impls.push(json!({"file": rel, "type": ty, "trait": tr, "fns": fns, "line": imp.impl_token.span().start().line}));
            }
        }
        for (st, _) in structs_in_file(&src.ast) {
            let fields: Vec<serde_json::Value> = st.fields.iter().filter_map(|f| f.ident.as_ref().map(|i| {
                let t: String = src.slice(src.range(f.ty.span())).split_whitespace().collect();
                json!({"name": i.to_string(), "type": t})
            })).collect();
            structs.push(json!({"file": rel, "name": st.ident.to_string(), "fields": fields}));
        }
    }
    let v = json!({"unsafe_sites": unsafe_sites, "wake_sites": wake_sites, "poll_sites": poll_sites, "slots_writes": slots_writes,
        "mark_sites": mark_sites, "atomic_sites": atomic_sites,
        "calls": calls, "call_seq": seqs, "macros": macros, "impls": impls, "structs": structs});
    std::fs::write(path, serde_json::to_string_pretty(&v).unwrap()).map_err(|e| format!("{}: {e}", path.display()))
}

fn main() {
    let args: Vec<String> = std::env::args().collect();
    let mut repo = PathBuf::from("/repo");
    let mut verif = PathBuf::from("/verif");
    let mut outp = PathBuf::from("/verif/build/fb_verif.rs");
    let mut mapp = PathBuf::from("/verif/build/map.json");
    let mut probes = false;
    let mut probe_prop: Option<String> = None;
    let mut assume_fns: Vec<String> = vec![];
    let mut probe_shard: Option<(usize, usize)> = None;
    let mut facts_out: Option<PathBuf> = None;
    let mut i = 1;
    while i < args.len() {
        match args[i].as_str() {
            "--repo" => {
                repo = PathBuf::from(&args[i + 1]);
                i += 1;
            }
            "--verif" => {
                verif = PathBuf::from(&args[i + 1]);
                i += 1;
            }
            "--out" => {
                outp = PathBuf::from(&args[i + 1]);
                i += 1;
            }
            "--map" => {
                mapp = PathBuf::from(&args[i + 1]);
                i += 1;
            }
            "--probes" => probes = true,
            "--facts" => {
                facts_out = Some(PathBuf::from(&args[i + 1]));
                i += 1;
            }
            "--probe-shard" => {
                let v: Vec<usize> = args[i + 1].split(':').filter_map(|x| x.parse().ok()).collect();
                if v.len() == 2 && v[0] > 0 {
                    probe_shard = Some((v[0], v[1]));
                }
                i += 1;
            }
            "--probe-prop" => {
                probe_prop = Some(args[i + 1].clone());
                i += 1;
            }
            "--assume-fn" => {
                assume_fns.push(args[i + 1].clone());
                i += 1;
            }
            a => {
                eprintln!("unknown argument {a}");
                std::process::exit(3);
            }
        }
        i += 1;
    }
    if let Some(fo) = facts_out {
        let mut all_src: Vec<String> = vec![];
        fn walk2(dir: &Path, base: &Path, acc: &mut Vec<String>) {
            if let Ok(rd) = std::fs::read_dir(dir) {
                let mut es: Vec<_> = rd.flatten().collect();
                es.sort_by_key(|e| e.path());
                for e in es {
                    let p = e.path();
                    if p.is_dir() { walk2(&p, base, acc); } else if p.extension().map(|x| x == "rs").unwrap_or(false) {
                        acc.push(p.strip_prefix(base).unwrap().to_string_lossy().to_string());
                    }
                }
            }
        }
        walk2(&repo.join("src"), &repo, &mut all_src);
        let mut srcs: HashMap<String, Src> = HashMap::new();
        for rel in &all_src {
            match Src::load(&repo, rel) {
                Ok(s) => { srcs.insert(rel.clone(), s); }
                Err(e) => { eprintln!("vx-extract: UNDECIDED: {e}"); std::process::exit(2); }
            }
        }
        match emit_facts(&srcs, &all_src, &fo) {
            Ok(()) => return,
            Err(e) => { eprintln!("vx-extract: UNDECIDED: {e}"); std::process::exit(2); }
        }
    }
    match run(&repo, &verif, &outp, &mapp, probes, probe_prop, probe_shard, &assume_fns) {
        Ok(()) => {}
        Err(e) => {
            eprintln!("vx-extract: UNDECIDED: {e}");
            std::process::exit(2);
        }
    }
}

fn run(repo: &Path, verif: &Path, outp: &Path, mapp: &Path, probes: bool, probe_prop: Option<String>, probe_shard: Option<(usize, usize)>, assume_fns: &[String]) -> Result<(), String> {
    // crate-wide facts
    let mut facts = Facts::default();
    let mut all_src: Vec<String> = vec![];
    fn walk(dir: &Path, base: &Path, acc: &mut Vec<String>) {
        if let Ok(rd) = std::fs::read_dir(dir) {
            let mut es: Vec<_> = rd.flatten().collect();
            es.sort_by_key(|e| e.path());
            for e in es {
                let p = e.path();
                if p.is_dir() {
                    walk(&p, base, acc);
                } else if p.extension().map(|x| x == "rs").unwrap_or(false) {
                    acc.push(p.strip_prefix(base).unwrap().to_string_lossy().to_string());
                }
            }
        }
    }
    walk(&repo.join("src"), repo, &mut all_src);
    let mut srcs: HashMap<String, Src> = HashMap::new();
    for rel in &all_src {
        let s = Src::load(repo, rel)?;
        for (st, projected) in structs_in_file(&s.ast) {
            scan_struct(&st, projected, &mut facts);
        }
        srcs.insert(rel.clone(), s);
    }

    let order = std::fs::read_to_string(verif.join("contracts/ORDER")).map_err(|e| format!("contracts/ORDER: {e}"))?;
    let mut out = Out::new();
    out.push("// GENERATED by vx-extract from /repo's working tree -- do not edit.\n", Origin::Gen);
    out.push("#![feature(allocator_api)]\n", Origin::Gen);
    out.push("#![allow(unused_imports, unused_variables, unused_mut, dead_code, unused_parens, unused_braces, unreachable_code, unused_assignments)]\n", Origin::Gen);
    let mut probe_counter = 0usize;
    let mut probe_list: Vec<serde_json::Value> = vec![];
    let mut units: Vec<serde_json::Value> = vec![];
    for line in order.lines() {
        let l = line.trim();
        if l.is_empty() || l.starts_with('#') {
            continue;
        }
        let (kind, name) = l.split_once(char::is_whitespace).ok_or_else(|| format!("ORDER: bad line `{l}`"))?;
        let name = name.trim();
        match kind {
            "preamble" => {
                let p = verif.join("preamble").join(name);
                let t = std::fs::read_to_string(&p).map_err(|e| format!("{}: {e}", p.display()))?;
                let start = out.cur_line() + 1;
                out.push("\n", Origin::Gen);
                for (k, pl) in t.lines().enumerate() {
                    out.push(&format!("{pl}\n"), Origin::Splice { tag: format!("preamble/{name}:{}", k + 1) });
                }
                units.push(json!({"preamble": name, "line_start": start, "line_end": out.cur_line()}));
            }
            "spec" => {
                let p = verif.join("contracts").join(name);
                let ds = parse_vspec(&p)?;
                let modname = format!("m_{}", name.trim_end_matches(".vspec").replace(|c: char| !c.is_alphanumeric(), "_"));
                let mod_start = out.cur_line() + 1;
                out.push(&format!("\npub mod {modname} {{\nuse super::*;\n"), Origin::Gen);
                let mut cur: Option<&Src> = None;
                for d in &ds {
                    match d {
                        Directive::File(f) => {
                            cur = Some(srcs.get(f).ok_or_else(|| format!("{name}: source file `{f}` not found in /repo (lost anchor)"))?);
                        }
                        Directive::Raw(b) => {
                            out.push("\n", Origin::Gen);
                            for (k, pl) in b.text.lines().enumerate() {
                                out.push(&format!("{pl}\n"), Origin::Splice { tag: format!("{name}:{}", b.line + k) });
                            }
                        }
                        Directive::Type { name: tn, opts } => {
                            let s = cur.ok_or_else(|| format!("{name}: `type` before `file`"))?;
                            emit_type(s, &facts, tn, opts, &mut out)?;
                        }
                        Directive::Item { kind, name: iname } => {
                            let s = cur.ok_or_else(|| format!("{name}: `item` before `file`"))?;
                            emit_item(s, &facts, kind, iname, &mut out)?;
                        }
                        Directive::Fn(fs) => {
                            let s = cur.ok_or_else(|| format!("{name}: `fn` before `file`"))?;
                            // A function whose body can no longer be brought into the verifier's subset (an anchor of its sidecar is
                            // gone, or the driver found that Verus rejects its text: --assume-fn) is emitted as its CONTRACT ONLY
                            // (external_body): its callers are still checked against the contract, the function itself is listed
                            // under `anchor_lost` and every property it carries is undecided for this run.
                            let forced = fs.mode == "verify" && assume_fns.iter().any(|k| *k == fs.key);
                            let snap = (out.text.len(), out.origins.len(), out.fn_ranges.len(), out.clauses.len(), out.edits_log.len(), out.anchor_shifted.len());
                            let (pc, pl) = (probe_counter, probe_list.len());
                            let first = if forced { Err("the verifier rejects the function's text".to_string()) } else {
                                let mut ctx = EmitCtx { probe_shard, probe_prop: probe_prop.clone(), probes, probe_counter: &mut probe_counter, probe_list: &mut probe_list };
                                emit_fn(s, &facts, fs, name, &mut out, &mut ctx)
                            };
                            if let Err(e) = first {
                                if fs.mode != "verify" { return Err(e); }
                                out.text.truncate(snap.0); out.origins.truncate(snap.1); out.fn_ranges.truncate(snap.2); out.clauses.truncate(snap.3);
                                out.edits_log.truncate(snap.4); out.anchor_shifted.truncate(snap.5);
                                probe_counter = pc; probe_list.truncate(pl);
                                let mut demoted = fs.clone();
                                demoted.mode = "assume".to_string();
                                demoted.at.clear();
                                demoted.loops.clear();
                                let mut ctx = EmitCtx { probe_shard, probe_prop: probe_prop.clone(), probes, probe_counter: &mut probe_counter, probe_list: &mut probe_list };
                                emit_fn(s, &facts, &demoted, name, &mut out, &mut ctx)?;
                                out.anchor_lost.push(json!({"fn": fs.key, "props": fs.props, "why": e}));
                            }
                        }
                    }
                }
                out.push(&format!("\n}} // mod {modname}\npub use {modname}::*;\n"), Origin::Gen);
                units.push(json!({"module": modname, "vspec": name, "line_start": mod_start, "line_end": out.cur_line()}));
            }
            _ => return Err(format!("ORDER: unknown kind `{kind}`")),
        }
    }
    out.push("\nfn main() {}\n", Origin::Gen);
    scan_labels(&mut out);

    if let Some(d) = outp.parent() {
        let _ = std::fs::create_dir_all(d);
    }
    std::fs::write(outp, &out.text).map_err(|e| format!("{}: {e}", outp.display()))?;
    let origins: Vec<serde_json::Value> = out
        .origins
        .iter()
        .map(|o| match o {
            Origin::Src { file, line } => json!({"f": file, "l": line}),
            Origin::Splice { tag } => json!({"s": tag}),
            Origin::Gen => json!(null),
        })
        .collect();
    let map = json!({
        "functions": out.fn_ranges,
        "clauses": out.clauses,
        "edits": out.edits_log,
        "probes": probe_list,
        "anchor_shifted": out.anchor_shifted,
        "anchor_lost": out.anchor_lost,
        "units": units,
        "lines": origins,
        "facts": {
            "pin_typed_fields": facts.pin_typed_fields, "pinned_fields": facts.pinned_fields,
            "projected_fields": facts.projected_fields, "wrapping_fields": facts.wrapping_fields,
        },
    });
    std::fs::write(mapp, serde_json::to_string(&map).unwrap()).map_err(|e| format!("{}: {e}", mapp.display()))?;
    Ok(())
}

#[allow(dead_code)]
fn _unused(_: TokenStream) {}
